// C04, histories: two calls sharing ONE caller-supplied in-situ object.
//
// "For ... all option combinations (... caller-supplied in-situ buffers)" quantifies over
// the state of those buffers, and the state a caller really meets is the one the library
// itself left behind in an earlier call - in particular in a call that FAILED (singular,
// not positive definite, non-finite entry) or that was made with another option set. The
// single-call families pre-fill the buffers with finite garbage only. Here, for every routine
// that accepts work buffers, every ordered pair of option sets, every first input of a small
// lattice that contains all kinds of inadmissible inputs, and every regular second input that
// exactly satisfies the precondition of the second option set:
//
//	call 1 (first input, options 1, buffers B) ; call 2 (second input, options 2, buffers B)
//
// call 2 must end like the same call with fresh buffers (same outcome class, bitwise equal
// result; dense code, no map iteration: deterministic). The fresh call itself is judged
// against the defining equations by the single-call families.
package main

import (
	"fmt"
	"math"
	"reflect"
	"strings"

	ad "github.com/pbenner/autodiff"
	"github.com/pbenner/autodiff/algorithm/backSubstitution"
	"github.com/pbenner/autodiff/algorithm/cholesky"
	"github.com/pbenner/autodiff/algorithm/determinant"
	"github.com/pbenner/autodiff/algorithm/gaussJordan"
	"github.com/pbenner/autodiff/algorithm/matrixInverse"

	"verif/mc/cmd/c04/exact"
	"verif/mc/vf"
)

// entries of a first input: small integers, or one of the codes below
const (
	codeNaN  = 90
	codePInf = 91
	codeNInf = 92
)

func decodeEntry(v int) float64 {
	switch v {
	case codeNaN:
		return math.NaN()
	case codePInf:
		return math.Inf(1)
	case codeNInf:
		return math.Inf(-1)
	}
	return float64(v)
}

func allPlain(a []int) bool {
	for _, v := range a {
		if v >= codeNaN {
			return false
		}
	}
	return true
}

func entriesString(n int, a []int) string {
	var sb strings.Builder
	sb.WriteString("[")
	for i := 0; i < n; i++ {
		if i > 0 {
			sb.WriteString("; ")
		}
		for j := 0; j < n; j++ {
			if j > 0 {
				sb.WriteString(" ")
			}
			sb.WriteString(fmt.Sprint(decodeEntry(a[i*n+j])))
		}
	}
	sb.WriteString("]")
	return sb.String()
}

// HCall is one call of a history.
type HCall struct {
	A    []int  `json:"a"`   // row major; 90=NaN 91=+Inf 92=-Inf
	Opt  string `json:"opt"` // "+"-joined: PD UT sub log LDL ForcePD nilb
	Mask []bool `json:"mask,omitempty"`
	Rhs  []int  `json:"rhs,omitempty"`
}

// HCase is the replay artefact of a history.
type HCase struct {
	Kind    string `json:"kind"` // "history"
	Routine string `json:"routine"`
	N       int    `json:"n"`
	Elem    string `json:"elem"`
	Buffers string `json:"buffers"` // nil: empty in-situ object, the library allocates | garbage: caller-allocated, pre-filled | reused: the routine's own arguments refilled by the caller
	First   HCall  `json:"first"`
	Second  HCall  `json:"second"`
	// recycle histories (Slot != ""): call 1 is made by routine Producer with its own, library-
	// allocated buffers; the matrix it RETURNS (Take = "D": the second one, cholesky's D) is
	// handed to call 2 (Routine) as the buffer Slot: Id | A | L | D (in-situ fields), a | x
	// (gaussJordan's arguments).
	Producer string `json:"producer,omitempty"`
	Take     string `json:"take,omitempty"`
	Slot     string `json:"slot,omitempty"`
}

type hres struct {
	label string // returned | error | panic | tick-budget | nil-result
	vals  []float64
	msg   string
	mat   ad.Matrix // the returned matrix object itself (recycle histories)
	mat2  ad.Matrix
	// the caller's INPUT objects of this call (matrix, right-hand side): they stay the caller's
	// after the call, whatever the in-situ object retains (nil for gaussJordan, whose arguments are
	// its work space and are refilled by the caller)
	inM ad.Matrix
	inV ad.Vector
}

// inputVals: the current content of the input objects of a call.
func (r hres) inputVals() []float64 {
	var v []float64
	if r.inM != nil {
		v = append(v, matVals(r.inM)...)
	}
	if r.inV != nil {
		v = append(v, vecVals(r.inV)...)
	}
	return v
}

func (r hres) finite() bool { return allFinite(r.vals...) }

func buildCoded(t ad.ScalarType, n int, a []int) ad.Matrix {
	r := ad.NullDenseMatrix(t, n, n)
	for i := 0; i < n; i++ {
		for j := 0; j < n; j++ {
			r.At(i, j).SetFloat64(decodeEntry(a[i*n+j]))
		}
	}
	return r
}

func matVals(m ad.ConstMatrix) []float64 {
	r, c := m.Dims()
	v := []float64{float64(r), float64(c)}
	for i := 0; i < r; i++ {
		for j := 0; j < c; j++ {
			v = append(v, m.ConstAt(i, j).GetFloat64())
		}
	}
	return v
}

func vecVals(x ad.ConstVector) []float64 {
	v := []float64{float64(x.Dim())}
	for i := 0; i < x.Dim(); i++ {
		v = append(v, x.ConstAt(i).GetFloat64())
	}
	return v
}

// a nil concrete pointer inside an interface value is a nil result as well
func isNilM(m ad.Matrix) bool {
	return m == nil || (reflect.ValueOf(m).Kind() == reflect.Ptr && reflect.ValueOf(m).IsNil())
}
func isNilV(m ad.Vector) bool {
	return m == nil || (reflect.ValueOf(m).Kind() == reflect.Ptr && reflect.ValueOf(m).IsNil()) || (reflect.ValueOf(m).Kind() == reflect.Slice && reflect.ValueOf(m).IsNil())
}

func finish(res callResult, vals func() []float64, isNil func() bool) hres {
	switch {
	case res.ticked:
		return hres{label: "tick-budget"}
	case res.pan != nil:
		return hres{label: "panic", msg: fmt.Sprint(res.pan)}
	case res.err != nil:
		return hres{label: "error", msg: res.err.Error()}
	case isNil():
		return hres{label: "nil-result"}
	}
	return hres{label: "returned", vals: vals()}
}

func choleskyGarbage(t ad.ScalarType, n int, withD bool) cholesky.InSitu {
	is := cholesky.InSitu{L: garbageMatrix(t, n), S: ad.NewScalar(t, 7.25), T: ad.NewScalar(t, -3.5)}
	if withD {
		is.D = garbageMatrix(t, n)
	}
	return is
}

// newSession returns the call function of one in-situ object (one per history / per fresh call).
func newSession(routine, elem string, n int, buffers string) func(h HCall) hres {
	return newSessionR(routine, elem, n, buffers, "", nil)
}

// newSessionR: as newSession, with the buffer `slot` replaced by the matrix R.
func newSessionR(routine, elem string, n int, buffers string, slot string, R ad.Matrix) func(h HCall) hres {
	t := elemTypes[elem]
	garbage := buffers == "garbage"
	switch routine {
	case "matrixInverse":
		is := &matrixInverse.InSitu{}
		if garbage {
			is = &matrixInverse.InSitu{Id: garbageMatrix(t, n), A: garbageMatrix(t, n), B: garbageVector(t, n), Cholesky: choleskyGarbage(t, n, false)}
		}
		switch slot {
		case "Id":
			is.Id = R
		case "A":
			is.A = R
		case "L":
			is.Cholesky.L = R
		}
		return func(h HCall) hres {
			a := buildCoded(t, n, h.A)
			var args []interface{}
			if has(h.Opt, "PD") {
				args = append(args, matrixInverse.PositiveDefinite{Value: true})
			}
			if has(h.Opt, "UT") {
				args = append(args, matrixInverse.UpperTriangular{Value: true})
			}
			if has(h.Opt, "sub") {
				args = append(args, gaussJordan.Submatrix{Value: append([]bool{}, h.Mask...)})
			}
			args = append(args, is)
			var X ad.Matrix
			res := guarded(n, func() error {
				x, err := matrixInverse.Run(a, args...)
				X = x
				return err
			})
			r := finish(res, func() []float64 { return matVals(X) }, func() bool { return isNilM(X) })
			r.mat = X
			r.inM = a
			return r
		}
	case "determinant":
		is := &determinant.InSitu{}
		if garbage {
			is = &determinant.InSitu{Cholesky: choleskyGarbage(t, n, false)}
		}
		if slot == "L" {
			is.Cholesky.L = R
		}
		return func(h HCall) hres {
			a := buildCoded(t, n, h.A)
			var args []interface{}
			if has(h.Opt, "PD") {
				args = append(args, determinant.PositiveDefinite{Value: true})
			}
			if has(h.Opt, "log") {
				args = append(args, determinant.LogScale{Value: true})
			}
			args = append(args, is)
			var D ad.Scalar
			res := guarded(n, func() error {
				d, err := determinant.Run(a, args...)
				D = d
				return err
			})
			r := finish(res, func() []float64 { return []float64{D.GetFloat64()} }, func() bool { return D == nil })
			r.inM = a
			return r
		}
	case "cholesky":
		is := &cholesky.InSitu{}
		if garbage {
			g := choleskyGarbage(t, n, true)
			is = &g
		}
		switch slot {
		case "L":
			is.L = R
		case "D":
			is.D = R
		}
		return func(h HCall) hres {
			a := buildCoded(t, n, h.A)
			var args []interface{}
			if has(h.Opt, "LDL") {
				args = append(args, cholesky.LDL{Value: true})
			}
			if has(h.Opt, "ForcePD") {
				args = append(args, cholesky.ForcePD{Value: true})
			}
			args = append(args, is)
			var L, D ad.Matrix
			res := guarded(n, func() error {
				l, d, err := cholesky.Run(a, args...)
				L, D = l, d
				return err
			})
			r := finish(res, func() []float64 {
				v := matVals(L)
				if !isNilM(D) {
					v = append(v, matVals(D)...)
				}
				return v
			}, func() bool { return isNilM(L) })
			r.mat, r.mat2 = L, D
			r.inM = a
			return r
		}
	case "backSubstitution":
		is := &backSubstitution.InSitu{}
		if garbage {
			is = &backSubstitution.InSitu{A: garbageMatrix(t, n), X: garbageVector(t, n), T: ad.NewScalar(t, 7.25)}
		}
		if slot == "A" {
			is.A = R
		}
		return func(h HCall) hres {
			a := buildCoded(t, n, h.A)
			var b ad.Vector
			if !has(h.Opt, "nilb") {
				b = buildVector(t, h.Rhs)
			}
			var X ad.Vector
			res := guarded(n, func() error {
				x, err := backSubstitution.Run(a, b, is)
				X = x
				return err
			})
			r := finish(res, func() []float64 { return vecVals(X) }, func() bool { return isNilV(X) })
			r.inM = a
			if b != nil {
				r.inV = b
			}
			return r
		}
	case "gaussJordan":
		// the routine works in its own arguments: the caller refills the same three objects
		a := garbageMatrix(t, n)
		x := garbageMatrix(t, n)
		b := garbageVector(t, n)
		switch slot {
		case "a":
			a = R
		case "x":
			x = R
		}
		return func(h HCall) hres {
			for i := 0; i < n; i++ {
				for j := 0; j < n; j++ {
					a.At(i, j).SetFloat64(decodeEntry(h.A[i*n+j]))
					if i == j {
						x.At(i, j).SetFloat64(1)
					} else {
						x.At(i, j).SetFloat64(0)
					}
				}
			}
			b.Set(buildVector(t, h.Rhs))
			var args []interface{}
			if has(h.Opt, "UT") {
				args = append(args, gaussJordan.UpperTriangular{Value: true})
			}
			if has(h.Opt, "sub") {
				args = append(args, gaussJordan.Submatrix{Value: append([]bool{}, h.Mask...)})
			}
			res := guarded(n, func() error { return gaussJordan.Run(a, x, b, args...) })
			// the rows of a outside the solution are work space; x and b are the results
			return finish(res, func() []float64 { return append(matVals(x), vecVals(b)...) }, func() bool { return false })
		}
	}
	return nil
}

func sameBits(a, b []float64) (bool, int) {
	if len(a) != len(b) {
		return false, -1
	}
	for i := range a {
		if math.Float64bits(a[i]) != math.Float64bits(b[i]) && !(math.IsNaN(a[i]) && math.IsNaN(b[i])) {
			return false, i
		}
	}
	return true, 0
}

// firstClass: what kind of input the first call was given (for the statistics).
func firstClass(h HCase) string {
	if !allPlain(h.First.A) {
		return "nonfinite-entry"
	}
	M := exact.FromInts(h.N, h.First.A)
	sel := make([]bool, h.N)
	for i := range sel {
		sel[i] = !has(h.First.Opt, "sub") || h.First.Mask[i]
	}
	B, _ := M.Sub(sel)
	switch {
	case B.N > 0 && B.Det() == 0:
		if s := B.StructSingular(); s != "" {
			return "structurally-singular"
		}
		return "singular"
	case (has(h.First.Opt, "PD") || h.Routine == "cholesky") && !B.IsSPD():
		return "not-SPD"
	case (has(h.First.Opt, "UT") || h.Routine == "backSubstitution") && !B.IsUpper():
		return "not-upper-triangular"
	}
	return "admissible"
}

func optBase(opt string) string {
	var r []string
	for _, t := range strings.Split(opt, "+") {
		if t != "" && t != "sub" && t != "nilb" {
			r = append(r, t)
		}
	}
	if len(r) == 0 {
		return "default"
	}
	return strings.Join(r, "+")
}

func histElemClass(h HCase) string {
	if h.Routine == "cholesky" {
		if h.Elem == "Float64" || h.Elem == "Float32" {
			return h.Elem + "-fast-cholesky"
		}
		return "generic"
	}
	return elemClass(Case{Routine: h.Routine, Elem: h.Elem, Opt: h.Second.Opt})
}

type hverdict struct {
	outcome string
	nontriv bool
	key     string
	what    string
}

func runHist(h HCase) hverdict {
	if _, ok := elemTypes[h.Elem]; !ok || newSession(h.Routine, h.Elem, h.N, h.Buffers) == nil {
		return hverdict{outcome: "bad-case"}
	}
	if h.Slot != "" {
		return runRecycle(h)
	}
	s := newSession(h.Routine, h.Elem, h.N, h.Buffers)
	r1 := s(h.First)
	in1 := r1.inputVals() // the first call's input objects as that call left them
	r2 := s(h.Second)
	in1after := r1.inputVals()
	fresh := newSession(h.Routine, h.Elem, h.N, h.Buffers)(h.Second)
	fc := firstClass(h)
	first := r1.label
	if first == "returned" && !r1.finite() {
		first = "returned-nonfinite"
	}
	v := hverdict{outcome: "first=" + fc + ":" + first + ",second=" + r2.label, nontriv: fc != "admissible" || r1.label != "returned"}
	descr := func() string {
		return fmt.Sprintf("%s %s, one in-situ object (buffers %s): call 1 {%s} mask=%v rhs=%v on %s ended with %s %s; call 2 {%s} mask=%v rhs=%v on the regular %s",
			h.Routine, h.Elem, h.Buffers, h.First.Opt, h.First.Mask, h.First.Rhs, entriesString(h.N, h.First.A), r1.label, r1.msg,
			h.Second.Opt, h.Second.Mask, h.Second.Rhs, entriesString(h.N, h.Second.A))
	}
	key := func(bad string) string {
		return "history|" + h.Routine + "|second=" + optBase(h.Second.Opt) + "|elem=" + histElemClass(h) + "|after=" + first + "|" + bad
	}
	switch {
	case r2.label == "tick-budget" && fresh.label != "tick-budget":
		v.key, v.what = "TICK|"+key("second-call-exceeds-tick-budget"), descr()+" exceeded the tick budget; with fresh buffers it ends with "+fresh.label
	case r2.label != fresh.label:
		v.key = key("second-call-" + r2.label + "-but-fresh-call-" + fresh.label)
		v.what = descr() + " ended with " + r2.label + " " + r2.msg + "; the same call with fresh buffers: " + fresh.label + " " + fresh.msg
	case r2.label == "returned":
		if ok, i := sameBits(r2.vals, fresh.vals); !ok {
			v.key = key("second-call-result-differs-from-fresh-call")
			v.what = fmt.Sprintf("%s returned %v; the same call with fresh buffers %v (first difference at position %d)", descr(), r2.vals, fresh.vals, i)
		}
	}
	if fresh.label != "returned" || !fresh.finite() {
		// the second input is regular and admissible by construction: the single-call families
		// judge this; here it would only make the history vacuous
		v.outcome += "(fresh-call:" + fresh.label + ")"
		v.nontriv = false
	}
	// caller input retained as persistent state: the input objects of the FIRST call must not be
	// touched by the second call on the same in-situ object
	if len(in1) > 0 {
		if ok, i := sameBits(in1, in1after); !ok && v.key == "" {
			v.key = key("input-of-earlier-call-modified-by-later-call")
			v.what = fmt.Sprintf("%s changed the input objects (matrix, right-hand side) of call 1: after call 1 %v, after call 2 %v (first difference at position %d)", descr(), in1, in1after, i)
		}
	}
	return v
}

// ---- enumeration ---------------------------------------------------------------

func histFirstInputs(n int) [][]int {
	var r [][]int
	cells := n * n
	lattice := func(alpha []int, visit func([]int)) {
		cnt := 1
		for i := 0; i < cells; i++ {
			cnt *= len(alpha)
		}
		for k := 0; k < cnt; k++ {
			a := make([]int, cells)
			x := k
			for i := 0; i < cells; i++ {
				a[i] = alpha[x%len(alpha)]
				x /= len(alpha)
			}
			visit(a)
		}
	}
	seen := map[string]bool{}
	add := func(a []int) {
		k := fmt.Sprint(a)
		if !seen[k] {
			seen[k] = true
			r = append(r, a)
		}
	}
	if n <= 2 {
		lattice([]int{0, 1, -1, 2}, add)
	} else {
		lattice([]int{0, 1}, add)
	}
	// exactly one non-finite entry
	for pos := 0; pos < cells; pos++ {
		for _, code := range []int{codeNaN, codePInf, codeNInf} {
			if n <= 2 {
				lattice([]int{0, 1}, func(a []int) {
					if a[pos] == 0 {
						b := append([]int{}, a...)
						b[pos] = code
						add(b)
					}
				})
			} else {
				for _, base := range []int{0, 1} { // identity, all ones
					b := make([]int, cells)
					for i := 0; i < n; i++ {
						for j := 0; j < n; j++ {
							if base == 1 || i == j {
								b[i*n+j] = 1
							}
						}
					}
					b[pos] = code
					add(b)
				}
			}
		}
	}
	return r
}

// histSecondInputs: regular, well-conditioned inputs: n<=2 every regular {0,1} matrix, n=3 every
// row permutation of every unit upper-triangular {0,1} matrix; plus every SPD matrix with
// diagonal in {1,2} (n=3: 2) and off-diagonal entries in {0,1,-1}.
func histSecondInputs(n int) []exact.Mat {
	var r []exact.Mat
	seen := map[string]bool{}
	add := func(m exact.Mat) {
		k := fmt.Sprint(m.V)
		if !seen[k] && m.Det() != 0 {
			seen[k] = true
			r = append(r, m)
		}
	}
	if n <= 2 {
		for i := int64(0); i < exact.LatticeCount(n, []int64{1, 0}); i++ {
			add(exact.LatticeAt(n, []int64{1, 0}, i))
		}
	} else {
		ne := n * (n - 1) / 2
		for _, p := range exact.Perms(n) {
			for k := 0; k < 1<<ne; k++ {
				u := exact.New(n)
				x := k
				for i := 0; i < n; i++ {
					u.Set(i, i, 1)
					for j := i + 1; j < n; j++ {
						u.Set(i, j, int64(x&1))
						x >>= 1
					}
				}
				m := exact.New(n)
				for i := 0; i < n; i++ {
					for j := 0; j < n; j++ {
						m.Set(i, j, u.At(p[i], j))
					}
				}
				add(m)
			}
		}
	}
	diag := []int64{1, 2}
	if n == 3 {
		diag = []int64{2}
	}
	ne := n * (n - 1) / 2
	nd := 1
	for i := 0; i < n; i++ {
		nd *= len(diag)
	}
	no := 1
	for i := 0; i < ne; i++ {
		no *= 3
	}
	for d := 0; d < nd; d++ {
		for o := 0; o < no; o++ {
			m := exact.New(n)
			x := d
			for i := 0; i < n; i++ {
				m.Set(i, i, diag[x%len(diag)])
				x /= len(diag)
			}
			y := o
			for i := 0; i < n; i++ {
				for j := i + 1; j < n; j++ {
					v := []int64{0, 1, -1}[y%3]
					y /= 3
					m.Set(i, j, v)
					m.Set(j, i, v)
				}
			}
			if m.IsSPD() {
				add(m)
			}
		}
	}
	return r
}

type hopt struct {
	opt  string
	mask []bool
}

func histMasks(n int) [][]bool {
	var r [][]bool
	if n < 2 {
		return r
	}
	for _, m := range allMasks(n) {
		c := 0
		for _, b := range m {
			if b {
				c++
			}
		}
		if c == n-1 {
			r = append(r, m)
		}
	}
	return r
}

func join(a, b string) string {
	if a == "" {
		return b
	}
	if b == "" {
		return a
	}
	return a + "+" + b
}

// histOptions: the option sets of a routine that go with an in-situ object (masks: one row
// and column excluded).
func histOptions(routine string, n int) []hopt {
	var r []hopt
	withMasks := func(bases ...string) {
		for _, b := range bases {
			r = append(r, hopt{b, nil})
		}
		for _, b := range bases {
			for _, m := range histMasks(n) {
				r = append(r, hopt{join(b, "sub"), m})
			}
		}
	}
	switch routine {
	case "matrixInverse":
		withMasks("", "UT", "PD")
	case "determinant":
		r = []hopt{{"", nil}, {"PD", nil}, {"PD+log", nil}}
	case "cholesky":
		r = []hopt{{"", nil}, {"LDL", nil}, {"LDL+ForcePD", nil}}
	case "backSubstitution":
		r = []hopt{{"", nil}, {"nilb", nil}}
	case "gaussJordan":
		withMasks("", "UT")
	}
	return r
}

// admissible: m satisfies the precondition of the option set exactly and the selected block is regular.
func admissible(routine string, o hopt, m exact.Mat) bool {
	sel := make([]bool, m.N)
	for i := range sel {
		sel[i] = o.mask == nil || o.mask[i]
	}
	B, _ := m.Sub(sel)
	if B.N == 0 || B.Det() == 0 {
		return false
	}
	if has(o.opt, "PD") || routine == "cholesky" {
		// PD+sub decouples the excluded rows: the block must be SPD
		return B.IsSPD()
	}
	if has(o.opt, "UT") || routine == "backSubstitution" {
		return m.IsUpper()
	}
	return true
}

func sameMask(a, b []bool) bool { return fmt.Sprint(a) == fmt.Sprint(b) }

func exploreHistories(c *vf.Ctx) {
	routines := []string{"matrixInverse", "determinant", "cholesky", "backSubstitution", "gaussJordan"}
	elems := []string{"Float64", "Real64"}
	if c.Thorough() {
		elems = []string{"Float64", "Real64", "Float32", "Real32"}
	}
	var idx int64
	for n := 1; n <= 3; n++ {
		firsts := histFirstInputs(n)
		seconds := histSecondInputs(n)
		rhs := rhsList(n)
		ramp := rhs[len(rhs)-1]
		for _, routine := range routines {
			opts := histOptions(routine, n)
			modes := []string{"nil", "garbage"}
			if routine == "gaussJordan" {
				modes = []string{"reused"}
			}
			var rhs2 [][]int
			switch routine {
			case "backSubstitution":
				rhs2 = rhs
			case "gaussJordan":
				rhs2 = [][]int{ramp, rhs[0]}
			default:
				rhs2 = [][]int{nil}
			}
			for _, o2 := range opts {
				for _, m2 := range seconds {
					if !admissible(routine, o2, m2) {
						continue
					}
					if c.Shard == 0 {
						c.Count(fmt.Sprintf("history-second-inputs:%s:n=%d", routine, n), 1)
					}
					for _, o1 := range opts {
						// n=3 quick: the same option set twice, or two option sets without a mask
						if n == 3 && !c.Thorough() && !(o1.opt == o2.opt && sameMask(o1.mask, o2.mask)) && !(o1.mask == nil && o2.mask == nil) {
							continue
						}
						rl := rhs2
						if has(o2.opt, "nilb") {
							rl = [][]int{nil} // no right-hand side: one history
						}
						for _, r2 := range rl {
							for _, e := range elems {
								for _, mode := range modes {
									for fi, f := range firsts {
										idx++
										if !c.Mine(idx) {
											continue
										}
										h := HCase{Kind: "history", Routine: routine, N: n, Elem: e, Buffers: mode,
											First:  HCall{A: f, Opt: o1.opt, Mask: o1.mask},
											Second: HCall{A: m2.Ints(), Opt: o2.opt, Mask: o2.mask}}
										if routine == "backSubstitution" || routine == "gaussJordan" {
											if !has(o1.opt, "nilb") {
												h.First.Rhs = ramp
											}
											if !has(o2.opt, "nilb") {
												h.Second.Rhs = r2
											}
										}
										rank := int64(9e17) + int64(n)*1e15 + int64(fi)*1e9 + idx%1e9
										c.Guard("history|"+routine+"|"+o1.opt+"|"+o2.opt+"|"+e, rank, h)
										v := runHist(h)
										c.Eval(1)
										if v.nontriv {
											c.Nontrivial(1)
										}
										c.Outcome("history|" + routine + "|" + v.outcome)
										c.Count("history:"+routine+":"+v.outcome, 1)
										if v.key != "" {
											c.Violate(v.key, v.what, rank, h)
										}
										if idx%200003 == 0 {
											c.Sample(h)
										}
									}
								}
							}
						}
					}
				}
			}
		}
	}
}

// ---- recycle histories -----------------------------------------------------------

// slotsOf: the matrix buffers of a routine that an option set really uses.
func slotsOf(routine, opt string) []string {
	switch routine {
	case "matrixInverse":
		r := []string{"Id"}
		if !has(opt, "PD") || has(opt, "sub") {
			r = append(r, "A")
		}
		if has(opt, "PD") {
			r = append(r, "L")
		}
		return r
	case "determinant":
		if has(opt, "PD") {
			return []string{"L"}
		}
	case "cholesky":
		if has(opt, "LDL") {
			return []string{"L", "D"}
		}
		return []string{"L"}
	case "backSubstitution":
		return []string{"A"}
	case "gaussJordan":
		return []string{"a", "x"}
	}
	return nil
}

type producer struct {
	routine, opt, take string
}

// the calls of the property's routines that return a matrix
var producers = []producer{
	{"matrixInverse", "", ""}, {"matrixInverse", "UT", ""}, {"matrixInverse", "PD", ""},
	{"cholesky", "", ""}, {"cholesky", "LDL", "D"},
}

// recycleFirstInputs: symmetric tridiagonal, diagonal 2, off-diagonals over {0,1} (all positive
// definite); for an upper-triangular producer the upper triangle of these.
func recycleFirstInputs(n int, opt string) [][]int {
	var r [][]int
	for k := 0; k < 1<<(n-1); k++ {
		m := exact.New(n)
		for i := 0; i < n; i++ {
			m.Set(i, i, 2)
			if i+1 < n {
				v := int64(k >> i & 1)
				m.Set(i, i+1, v)
				if !has(opt, "UT") {
					m.Set(i+1, i, v)
				}
			}
		}
		r = append(r, m.Ints())
	}
	return r
}

func runRecycle(h HCase) hverdict {
	if newSession(h.Producer, h.Elem, h.N, "nil") == nil {
		return hverdict{outcome: "bad-case"}
	}
	r1 := newSession(h.Producer, h.Elem, h.N, "nil")(h.First)
	R := r1.mat
	if h.Take == "D" {
		R = r1.mat2
	}
	from := h.Producer + ":" + optBase(h.First.Opt)
	if h.Take != "" {
		from += ":" + h.Take
	}
	if r1.label != "returned" || isNilM(R) {
		return hverdict{outcome: "recycle from=" + from + ":producer-" + r1.label}
	}
	in1 := r1.inputVals()
	r2 := newSessionR(h.Routine, h.Elem, h.N, h.Buffers, h.Slot, R)(h.Second)
	in1after := r1.inputVals()
	fresh := newSession(h.Routine, h.Elem, h.N, h.Buffers)(h.Second)
	v := hverdict{outcome: "recycle from=" + from + ",second=" + r2.label, nontriv: true}
	descr := func() string {
		return fmt.Sprintf("%s %s: the matrix returned by %s{%s} on %s is recycled as buffer %s (other buffers %s) of the call {%s} mask=%v rhs=%v on the regular %s",
			h.Routine, h.Elem, h.Producer, h.First.Opt, entriesString(h.N, h.First.A), h.Slot, h.Buffers, h.Second.Opt, h.Second.Mask, h.Second.Rhs, entriesString(h.N, h.Second.A))
	}
	key := func(bad string) string {
		return "recycle|" + h.Routine + "|slot=" + h.Slot + "|from=" + from + "|second=" + optBase(h.Second.Opt) + "|elem=" + histElemClass(h) + "|" + bad
	}
	switch {
	case r2.label == "tick-budget" && fresh.label != "tick-budget":
		v.key, v.what = "TICK|"+key("second-call-exceeds-tick-budget"), descr()+" exceeded the tick budget; with fresh buffers it ends with "+fresh.label
	case r2.label != fresh.label:
		v.key = key("second-call-" + r2.label + "-but-fresh-call-" + fresh.label)
		v.what = descr() + " ended with " + r2.label + " " + r2.msg + "; the same call with fresh buffers: " + fresh.label + " " + fresh.msg
	case r2.label == "returned":
		if ok, i := sameBits(r2.vals, fresh.vals); !ok {
			v.key = key("second-call-result-differs-from-fresh-call")
			v.what = fmt.Sprintf("%s returned %v; the same call with fresh buffers %v (first difference at position %d)", descr(), r2.vals, fresh.vals, i)
		}
	}
	if fresh.label != "returned" || !fresh.finite() {
		v.outcome += "(fresh-call:" + fresh.label + ")"
		v.nontriv = false
	}
	// the producer's input stays the caller's: writing into the matrix the producer RETURNED must
	// not reach the matrix it was GIVEN
	if len(in1) > 0 {
		if ok, i := sameBits(in1, in1after); !ok && v.key == "" {
			v.key = key("input-of-producer-call-modified-by-second-call")
			v.what = fmt.Sprintf("%s changed the input matrix of the producer call: before %v, after %v (first difference at position %d)", descr(), in1, in1after, i)
		}
	}
	return v
}

func exploreRecycle(c *vf.Ctx) {
	routines := []string{"matrixInverse", "determinant", "cholesky", "backSubstitution", "gaussJordan"}
	elems := []string{"Float64", "Real64", "Float32", "Real32"}
	var idx int64
	for n := 1; n <= 3; n++ {
		seconds := histSecondInputs(n)
		rhs := rhsList(n)
		ramp := rhs[len(rhs)-1]
		for _, routine := range routines {
			modes := []string{"nil", "garbage"}
			if routine == "gaussJordan" {
				modes = []string{"reused"}
			}
			for _, o2 := range histOptions(routine, n) {
				// n=3 quick: consumer option sets without a mask
				if n == 3 && !c.Thorough() && o2.mask != nil {
					continue
				}
				for _, slot := range slotsOf(routine, o2.opt) {
					for _, m2 := range seconds {
						if !admissible(routine, o2, m2) {
							continue
						}
						for _, pr := range producers {
							for fi, f := range recycleFirstInputs(n, pr.opt) {
								for _, e := range elems {
									for _, mode := range modes {
										idx++
										if !c.Mine(idx) {
											continue
										}
										h := HCase{Kind: "history", Routine: routine, N: n, Elem: e, Buffers: mode,
											Producer: pr.routine, Take: pr.take, Slot: slot,
											First:  HCall{A: f, Opt: pr.opt},
											Second: HCall{A: m2.Ints(), Opt: o2.opt, Mask: o2.mask}}
										if (routine == "backSubstitution" || routine == "gaussJordan") && !has(o2.opt, "nilb") {
											h.Second.Rhs = ramp
										}
										rank := int64(8e17) + int64(n)*1e15 + int64(fi)*1e9 + idx%1e9
										c.Guard("recycle|"+routine+"|"+slot+"|"+pr.routine+":"+pr.opt+"|"+o2.opt+"|"+e, rank, h)
										v := runHist(h)
										c.Eval(1)
										if v.nontriv {
											c.Nontrivial(1)
										}
										c.Outcome("recycle|" + routine + "|slot=" + slot + "|" + v.outcome)
										c.Count("recycle:"+routine+":"+v.outcome, 1)
										if v.key != "" {
											c.Violate(v.key, v.what, rank, h)
										}
										if idx%50021 == 0 {
											c.Sample(h)
										}
									}
								}
							}
						}
					}
				}
			}
		}
	}
}
