// C04, exact power-of-two scalings. "Regular well-conditioned input" says nothing about the
// magnitude of the entries: A*2^k has the condition number of A, and every result of the
// property has a known scaling law -
//
//	determinant      det(A*2^k)     = 2^(k*n) * det(A)
//	log-determinant  log det(A*2^k) = k*n*log(2) + log det(A)      (always an ordinary number)
//	inverse          inv(A*2^k)     = 2^-k * inv(A)
//	solve            (A*2^k) x = b  : x = 2^-k * x(A)              (Gauss-Jordan, back substitution)
//
// Scaling small integers by a power of two is exact in binary floating point, so the reference
// is the exact unscaled reference shifted by the law, and the tolerances stay relative. The
// lattices of the other families have entries of magnitude <= 2 only, so a routine that forms
// an n-fold product where a sum of logarithms (or a product of square roots) is called for,
// or compares against an absolute threshold, is never seen to under- or overflow there.
//
// Two magnitudes per element type:
//
//	moderate  k = +-120, +-400 (64 bit), +-20, +-56 (32 bit): every entry, reciprocal and product
//	          of TWO entries is a normal number (the routines form a[j,i]*a[i,k] before dividing by
//	          the pivot), n-fold products are not (n >= 3 resp. n >= 5): every routine, every option set;
//	extreme   k = +-800 (64 bit), +-100 (32 bit): only entries, reciprocals and square roots are
//	          normal numbers: the determinant routes (whose laws involve n-fold products), where the
//	          square root of the determinant leaves the range already at n = 2, 3.
//
// The plain determinant is judged only where the true value is a normal number of the element
// type with a margin of 2^24; the log-determinant always.
package main

import (
	"fmt"
	"strings"

	"verif/mc/vf"
)

func moderateScales(elem string) []int {
	if strings.HasSuffix(elem, "32") {
		return []int{20, -20, 56, -56}
	}
	return []int{120, -120, 400, -400}
}

func extremeScales(elem string) []int {
	if strings.HasSuffix(elem, "32") {
		return []int{100, -100}
	}
	return []int{800, -800}
}

func exploreScaled(c *vf.Ctx) {
	var fams []family
	if c.Thorough() {
		fams = []family{latticeFamily(1, []int64{0, 1, -1, 2, -2}, always), latticeFamily(2, []int64{0, 1, -1, 2, -2}, always),
			latticeFamily(3, []int64{0, 1, -1}, always), spd3Family(),
			rowPermFamily(4, []string{"ones", "alternating"}, always), spdTridiagonalFamily(4), upperToeplitzFamily(4),
			rowPermFamily(5, []string{"alternating"}, always), spdTridiagonalFamily(5), upperToeplitzFamily(5),
			spdTridiagonalFamily(6), upperToeplitzFamily(6)}
	} else {
		fams = []family{latticeFamily(1, []int64{0, 1, -1, 2, -2}, always), latticeFamily(2, []int64{0, 1, -1, 2}, always),
			latticeFamily(3, []int64{0, 1}, always), spd3Family(), spdTridiagonalFamily(5), upperToeplitzFamily(5), spdTridiagonalFamily(6)}
	}
	var gidx int64
	for fi, f := range fams {
		for i := int64(0); i < f.count; i++ {
			gidx++
			if !c.Mine(gidx) {
				continue
			}
			m := f.at(i)
			if msg := m.CrossCheck(); msg != "" {
				c.HarnessError("reference self-check: " + msg)
				return
			}
			c.Count("scaled-matrices:"+f.name, 1)
			k := 0
			for _, base := range casesFor(m, true) {
				scales := moderateScales(base.Elem)
				if base.Routine == "determinant" {
					scales = append(append([]int{}, scales...), extremeScales(base.Elem)...)
				}
				for _, sc := range scales {
					cs := base
					cs.Scale = sc
					k++
					rank := int64(6e17) + int64(fi)*1e15 + sumAbs(m)*1e12 + i*100000 + int64(k)
					c.Guard("scaled|"+cs.Routine+"|"+cs.Opt+"|"+cs.Elem, rank, cs)
					v, key, what := judge(cs)
					c.Eval(1)
					if v.nontriv {
						c.Nontrivial(1)
					}
					c.Outcome("scaled|" + cs.Routine + "|" + cs.Opt + "|" + v.outcome)
					c.Count(fmt.Sprintf("scaled:%s:%s", cs.Routine, v.outcome), 1)
					if key != "" {
						c.Violate(key, describe(cs, what), rank, cs)
					}
					if gidx%211 == 0 && k == 40 {
						c.Sample(cs)
					}
				}
			}
		}
	}
}
