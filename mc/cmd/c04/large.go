// C04, sizes 5 and 6: structured families that are small enough to be enumerated completely
// for EVERY routine and option set of the property (the full lattices stop at n=3/4; a routine
// whose behaviour depends on the size - recursion depth of the cofactor expansion, scratch
// storage shared between recursion levels, loop bounds, pivot sequences longer than four rows -
// is otherwise never seen beyond 4x4). Entries stay in {-2..2}, so the fraction-free int64
// reference (exact.Det/Adj, cross-checked against the big.Rat elimination) remains exact:
// every minor is bounded by Hadamard's inequality, (sqrt(6)*2)^6 < 2^14.
package main

import (
	"fmt"

	"verif/mc/cmd/c04/exact"
)

// masksFor: the Submatrix masks run on an n x n matrix. n<=4: all 2^n. n>=5: the empty and the
// full mask, every mask that excludes exactly one index, the two alternating masks, the leading
// and the trailing half.
func masksFor(n int) [][]bool {
	if n <= 4 {
		return allMasks(n)
	}
	var r [][]bool
	seen := map[string]bool{}
	add := func(f func(i int) bool) {
		m := make([]bool, n)
		for i := range m {
			m[i] = f(i)
		}
		if k := fmt.Sprint(m); !seen[k] {
			seen[k] = true
			r = append(r, m)
		}
	}
	add(func(int) bool { return true })
	for k := 0; k < n; k++ {
		k := k
		add(func(i int) bool { return i != k })
	}
	add(func(i int) bool { return i%2 == 0 })
	add(func(i int) bool { return i%2 == 1 })
	add(func(i int) bool { return i < (n+1)/2 })
	add(func(i int) bool { return i >= n/2 })
	add(func(int) bool { return false })
	return r
}

func pow(b, e int) int64 {
	r := int64(1)
	for i := 0; i < e; i++ {
		r *= int64(b)
	}
	return r
}

// digits of idx in base len(alpha), mapped through alpha
func digits(idx int64, k int, alpha []int64) []int64 {
	r := make([]int64, k)
	for i := 0; i < k; i++ {
		r[i] = alpha[idx%int64(len(alpha))]
		idx /= int64(len(alpha))
	}
	return r
}

// upper-triangular templates whose rows are permuted
func upperTemplate(n int, which string) exact.Mat {
	u := exact.New(n)
	for i := 0; i < n; i++ {
		u.Set(i, i, 1)
		for j := i + 1; j < n; j++ {
			switch which {
			case "ones":
				u.Set(i, j, 1)
			case "bidiagonal":
				if j == i+1 {
					u.Set(i, j, 1)
				}
			case "alternating":
				if (i+j)%2 == 1 {
					u.Set(i, j, -1)
				} else {
					u.Set(i, j, 1)
				}
			}
		}
	}
	return u
}

// rowPermFamily: every row permutation of each template (unit upper-triangular): the pivot
// search has exactly one candidate per column, so the n! matrices of a template realise every
// pivot order of size n.
func rowPermFamily(n int, templates []string, full func(exact.Mat) bool) family {
	perms := exact.Perms(n)
	np := int64(len(perms))
	return family{fmt.Sprintf("n=%d,rowperm(unit-upper-tri templates %v)", n, templates), n, np * int64(len(templates)), func(i int64) exact.Mat {
		u := upperTemplate(n, templates[i/np])
		p := perms[i%np]
		m := exact.New(n)
		for r := 0; r < n; r++ {
			for c := 0; c < n; c++ {
				m.Set(r, c, u.At(p[r], c))
			}
		}
		return m
	}, full}
}

// companionFamily: the companion matrix of x^n - c[n-1] x^(n-1) - ... - c[0] in its four
// orientations (coefficients in the last column / last row / first column / first row, ones on
// the sub- or super-diagonal), every coefficient vector over alpha. c[0] = 0 gives a zero row or
// column (structurally singular), otherwise det = +-c[0].
func companionFamily(n int, alpha []int64) family {
	cnt := pow(len(alpha), n)
	return family{fmt.Sprintf("n=%d,companion x4 orientations,coefficients=%v", n, alpha), n, 4 * cnt, func(i int64) exact.Mat {
		orient := i / cnt
		c := digits(i%cnt, n, alpha)
		m := exact.New(n)
		for k := 0; k+1 < n; k++ {
			m.Set(k+1, k, 1) // ones on the subdiagonal
		}
		for k := 0; k < n; k++ {
			m.Set(k, n-1, c[k]) // coefficients in the last column
		}
		switch orient {
		case 1:
			m = m.T()
		case 2, 3: // reverse rows and columns: coefficients in the first column, ones on the superdiagonal
			f := exact.New(n)
			for r := 0; r < n; r++ {
				for cc := 0; cc < n; cc++ {
					f.Set(r, cc, m.At(n-1-r, n-1-cc))
				}
			}
			m = f
			if orient == 3 {
				m = m.T()
			}
		}
		return m
	}, never}
}

// arrowFamily: the identity bordered by a first row r and a first column c over {0,1} with
// corner d: det = d - r.c.
func arrowFamily(n int, corners []int64) family {
	per := pow(2, 2*(n-1))
	return family{fmt.Sprintf("n=%d,bordered identity (arrow),corner=%v,border{0,1}", n, corners), n, per * int64(len(corners)), func(i int64) exact.Mat {
		d := corners[i/per]
		bits := i % per
		m := exact.New(n)
		m.Set(0, 0, d)
		for k := 1; k < n; k++ {
			m.Set(k, k, 1)
			m.Set(0, k, bits&1)
			bits >>= 1
			m.Set(k, 0, bits&1)
			bits >>= 1
		}
		return m
	}, never}
}

// spdTridiagonalFamily: diagonal 2, first off-diagonals over {0,1,-1}: all symmetric positive
// definite (the positive-definite options at sizes 5 and 6).
func spdTridiagonalFamily(n int) family {
	return family{fmt.Sprintf("n=%d,symmetric tridiagonal,diag=2,off{0,1,-1}", n), n, pow(3, n-1), func(i int64) exact.Mat {
		o := digits(i, n-1, []int64{0, 1, -1})
		m := exact.New(n)
		for k := 0; k < n; k++ {
			m.Set(k, k, 2)
			if k+1 < n {
				m.Set(k, k+1, o[k])
				m.Set(k+1, k, o[k])
			}
		}
		return m
	}, always}
}

// upperToeplitzFamily: unit upper-triangular Toeplitz matrices, first row (1, t1..t_{n-1}) over
// {0,1,-1} (UpperTriangular options and backSubstitution at sizes 5 and 6).
func upperToeplitzFamily(n int) family {
	return family{fmt.Sprintf("n=%d,unit upper-triangular Toeplitz{0,1,-1}", n), n, pow(3, n-1), func(i int64) exact.Mat {
		t := digits(i, n-1, []int64{0, 1, -1})
		m := exact.New(n)
		for r := 0; r < n; r++ {
			m.Set(r, r, 1)
			for c := r + 1; c < n; c++ {
				m.Set(r, c, t[c-r-1])
			}
		}
		return m
	}, never}
}

// permPlusEntryFamily (thorough): every permutation matrix with s in {+1,-1} added to one entry
// (any of the n^2 positions: on a one of the permutation this gives 2 or a zero row).
func permPlusEntryFamily(n int) family {
	perms := exact.Perms(n)
	np := int64(len(perms))
	cells := int64(n * n)
	return family{fmt.Sprintf("n=%d,permutation+-one entry", n), n, np * cells * 2, func(i int64) exact.Mat {
		p := perms[i%np]
		i /= np
		pos := i % cells
		s := int64(1)
		if i/cells == 1 {
			s = -1
		}
		m := exact.New(n)
		for r := 0; r < n; r++ {
			m.Set(r, p[r], 1)
		}
		m.V[pos] += s
		return m
	}, never}
}

// sizeSweepFamily (fifth seeding round, seed C04-12): sizes 7..10. A routine may switch its
// method at a size threshold (recursion replaced by an elimination from some n on, a blocked
// variant, a scratch buffer of fixed capacity), and the families above stop at n=6. Complete
// enumeration is out of reach there, so the sweep keeps the templates whose pivot search has
// one candidate per column and runs them under a set of row permutations that contains both
// parities, a fixed point free one and every adjacent interchange: identity, (k k+1) for every
// k, (0 n-1), the cyclic shift and the reversal - every routine and option set as for n=5, 6.
func sweepPerms(n int) [][]int {
	id := func() []int {
		p := make([]int, n)
		for i := range p {
			p[i] = i
		}
		return p
	}
	r := [][]int{id()}
	for k := 0; k+1 < n; k++ {
		p := id()
		p[k], p[k+1] = p[k+1], p[k]
		r = append(r, p)
	}
	p := id()
	p[0], p[n-1] = p[n-1], p[0]
	r = append(r, p)
	p = id()
	for i := range p {
		p[i] = (i + 1) % n
	}
	r = append(r, p)
	p = id()
	for i := range p {
		p[i] = n - 1 - i
	}
	r = append(r, p)
	return r
}

func sizeSweepFamily(n int, templates []string) family {
	perms := sweepPerms(n)
	np := int64(len(perms))
	return family{fmt.Sprintf("n=%d,size sweep: %d row permutations (identity, adjacent interchanges, (0 n-1), cyclic shift, reversal) of unit upper-tri templates %v", n, np, templates), n, np * int64(len(templates)), func(i int64) exact.Mat {
		u := upperTemplate(n, templates[i/np])
		p := perms[i%np]
		m := exact.New(n)
		for r := 0; r < n; r++ {
			for c := 0; c < n; c++ {
				m.Set(r, c, u.At(p[r], c))
			}
		}
		return m
	}, always}
}

func never(exact.Mat) bool { return false }

// largeFamilies: the families of sizes 5 and 6 per tier.
func largeFamilies(thorough bool) []family {
	a2 := []int64{0, 1}
	a3 := []int64{0, 1, -1}
	if thorough {
		return []family{
			rowPermFamily(5, []string{"identity", "ones", "bidiagonal", "alternating"}, always),
			companionFamily(5, a3), arrowFamily(5, []int64{1, 2}), spdTridiagonalFamily(5), upperToeplitzFamily(5), permPlusEntryFamily(5),
			rowPermFamily(6, []string{"identity", "ones", "bidiagonal", "alternating"}, never),
			companionFamily(6, a3), arrowFamily(6, []int64{1, 2}), spdTridiagonalFamily(6), upperToeplitzFamily(6), permPlusEntryFamily(6),
			sizeSweepFamily(7, []string{"identity", "bidiagonal", "ones"}), sizeSweepFamily(8, []string{"identity", "bidiagonal", "ones"}),
			sizeSweepFamily(9, []string{"identity", "bidiagonal"}), sizeSweepFamily(10, []string{"identity"}),
		}
	}
	return []family{
		rowPermFamily(5, []string{"ones", "bidiagonal", "alternating"}, never),
		companionFamily(5, a3), arrowFamily(5, []int64{2}), spdTridiagonalFamily(5), upperToeplitzFamily(5),
		rowPermFamily(6, []string{"ones"}, never),
		companionFamily(6, a2), arrowFamily(6, []int64{2}), spdTridiagonalFamily(6), upperToeplitzFamily(6),
		sizeSweepFamily(7, []string{"bidiagonal"}), sizeSweepFamily(8, []string{"identity", "bidiagonal"}), sizeSweepFamily(9, []string{"identity"}),
	}
}
