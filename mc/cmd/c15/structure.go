package main

// Structured transition matrices: the constrained HMM (equality constraints between
// cells of the transition matrix, generic.ChmmTransitionMatrix) and the hierarchical HMM
// (a tree over contiguous state ranges; all transitions between two sibling subtrees
// share one value, generic.HhmmTransitionMatrix).
//
// Both are "tie structures": a partition of the m*m cells into groups whose members must
// be equal.  The library DEFINES the normalisation of such a matrix as the maximiser of
//      sum_cells xi(cell) log theta(group(cell))   subject to every row summing to one
// (constrainedHmm.go: Lagrange multipliers found by Newton; hierarchicalHmm.go: the
// closed form of the same problem for nested blocks).  The reference below solves that
// concave problem with independent code (iterative scaling of the multipliers, accepted
// only when the KKT conditions hold to 1e-13; the maximiser is unique on the support of
// xi).  Nothing here calls the library except the two functions that translate a
// structure into the library's constraint / tree arguments.

import (
	"fmt"
	"math"

	"github.com/pbenner/autodiff/statistics/generic"
)

// Tree over contiguous state ranges; a node without children is a leaf [From,To).
type Tree struct {
	Leaf     [2]int `json:"leaf"`
	Children []Tree `json:"children,omitempty"`
}

func (t Tree) rng() (int, int) {
	if len(t.Children) == 0 {
		return t.Leaf[0], t.Leaf[1]
	}
	a, _ := t.Children[0].rng()
	_, b := t.Children[len(t.Children)-1].rng()
	return a, b
}

func (t Tree) String() string {
	if len(t.Children) == 0 {
		return fmt.Sprintf("[%d,%d)", t.Leaf[0], t.Leaf[1])
	}
	s := "("
	for i, c := range t.Children {
		if i > 0 {
			s += " "
		}
		s += c.String()
	}
	return s + ")"
}

// all trees over [a,b): a single leaf, or >= 2 consecutive sub-ranges each carrying any
// tree (no unary nodes)
func treesOver(a, b int) []Tree {
	out := []Tree{{Leaf: [2]int{a, b}}}
	var rec func(from int, parts [][2]int)
	rec = func(from int, parts [][2]int) {
		if from == b {
			if len(parts) < 2 {
				return
			}
			combos := [][]Tree{{}}
			for _, p := range parts {
				var nx [][]Tree
				for _, c := range combos {
					for _, t := range treesOver(p[0], p[1]) {
						nx = append(nx, append(append([]Tree{}, c...), t))
					}
				}
				combos = nx
			}
			for _, c := range combos {
				out = append(out, Tree{Children: c})
			}
			return
		}
		for to := from + 1; to <= b; to++ {
			if from == a && to == b {
				continue
			}
			rec(to, append(append([][2]int{}, parts...), [2]int{from, to}))
		}
	}
	rec(a, nil)
	return out
}

func (t Tree) blockGroups(out *[][][2]int) {
	for i, ci := range t.Children {
		ci.blockGroups(out)
		ra, rb := ci.rng()
		for j, cj := range t.Children {
			if i == j {
				continue
			}
			ca, cb := cj.rng()
			var g [][2]int
			for r := ra; r < rb; r++ {
				for c := ca; c < cb; c++ {
					g = append(g, [2]int{r, c})
				}
			}
			*out = append(*out, g)
		}
	}
}

func (t Tree) lib() generic.HmmNode {
	if len(t.Children) == 0 {
		return generic.NewHmmLeaf(t.Leaf[0], t.Leaf[1])
	}
	ch := make([]generic.HmmNode, len(t.Children))
	for i, c := range t.Children {
		ch[i] = c.lib()
	}
	return generic.NewHmmNode(ch...)
}

func libConstraints(cs [][][2]int) []generic.EqualityConstraint {
	var out []generic.EqualityConstraint
	for _, g := range cs {
		out = append(out, generic.EqualityConstraint(append([][2]int{}, g...)))
	}
	return out
}

/* the structure dimension of the model space
 * -------------------------------------------------------------------------- */

const (
	kindPlain        = ""
	kindConstrained  = "constrained"
	kindHierarchical = "hierarchical"
)

type structure struct {
	kind        string
	constraints [][][2]int
	tree        *Tree
}

// set partitions of the m*m cells; only the blocks with >= 2 cells are kept (the library
// complements the constraint list with singletons itself)
func cellPartitions(m int) [][][][2]int {
	n := m * m
	var out [][][][2]int
	assign := make([]int, n)
	var rec func(i, nb int)
	rec = func(i, nb int) {
		if i == n {
			blocks := make([][][2]int, nb)
			for c, b := range assign {
				blocks[b] = append(blocks[b], [2]int{c / m, c % m})
			}
			var cs [][][2]int
			for _, b := range blocks {
				if len(b) >= 2 {
					cs = append(cs, b)
				}
			}
			out = append(out, cs)
			return
		}
		for b := 0; b <= nb; b++ {
			assign[i] = b
			if b == nb {
				rec(i+1, nb+1)
			} else {
				rec(i+1, nb)
			}
		}
	}
	rec(0, 0)
	return out
}

// constraint alphabets: "pairs" = no constraint, or one equality constraint between any two
// cells; "partitions" = every partition of the cells into tie groups (m <= 2 only)
func constraintSets(m int, how string) [][][][2]int {
	if how == "partitions" {
		return cellPartitions(m)
	}
	out := [][][][2]int{nil}
	n := m * m
	for a := 0; a < n; a++ {
		for b := a + 1; b < n; b++ {
			out = append(out, [][][2]int{{{a / m, a % m}, {b / m, b % m}}})
		}
	}
	return out
}

func structures(m int, kinds []string, consHow string) []structure {
	var out []structure
	for _, k := range kinds {
		switch k {
		case kindPlain:
			out = append(out, structure{kind: kindPlain})
		case kindConstrained:
			for _, cs := range constraintSets(m, consHow) {
				out = append(out, structure{kind: k, constraints: cs})
			}
		case kindHierarchical:
			for _, t := range treesOver(0, m) {
				t := t
				out = append(out, structure{kind: k, tree: &t})
			}
		}
	}
	return out
}

/* tie groups and the reference normalisation
 * -------------------------------------------------------------------------- */

// explicit tie groups of a model (cells not mentioned are free)
func (md Model) tieGroups() [][][2]int {
	switch md.Kind {
	case kindConstrained:
		return md.Constraints
	case kindHierarchical:
		var g [][][2]int
		if md.Tree != nil {
			md.Tree.blockGroups(&g)
		}
		return g
	}
	return nil
}

func tieConsistent(tr [][]float64, groups [][][2]int) bool {
	for _, g := range groups {
		for _, c := range g[1:] {
			if tr[c[0]][c[1]] != tr[g[0][0]][g[0][1]] {
				return false
			}
		}
	}
	return true
}

// structurally valid for the library's constructors: cells inside the matrix, no cell in
// two groups
func groupsValid(m int, groups [][][2]int) bool {
	seen := map[[2]int]bool{}
	for _, g := range groups {
		if len(g) == 0 {
			return false
		}
		for _, c := range g {
			if c[0] < 0 || c[0] >= m || c[1] < 0 || c[1] >= m || seen[c] {
				return false
			}
			seen[c] = true
		}
	}
	return true
}

// solveTied: theta maximising sum xi log theta over matrices that are constant on every
// tie group, zero where the group has no mass, with unit row sums.  ok=false when no such
// matrix exists or it is not determined (a row whose groups all have zero mass, or groups
// that cannot be scaled to unit row sums).
func solveTied(xi [][]float64, groups [][][2]int) ([][]float64, bool) {
	m := len(xi)
	gid := make([][]int, m)
	for i := range gid {
		gid[i] = make([]int, m)
		for j := range gid[i] {
			gid[i][j] = -1
		}
	}
	all := append([][][2]int{}, groups...)
	for k, g := range groups {
		for _, c := range g {
			gid[c[0]][c[1]] = k
		}
	}
	for i := 0; i < m; i++ {
		for j := 0; j < m; j++ {
			if gid[i][j] < 0 {
				gid[i][j] = len(all)
				all = append(all, [][2]int{{i, j}})
			}
		}
	}
	K := len(all)
	A := make([][]float64, K) // A[k][i]: number of cells of group k in row i
	X := make([]float64, K)   // mass of group k
	for k, g := range all {
		A[k] = make([]float64, m)
		for _, c := range g {
			A[k][c[0]]++
			X[k] += xi[c[0]][c[1]]
		}
	}
	lam := make([]float64, m)
	for i := range lam {
		lam[i] = 1
	}
	th := make([]float64, K)
	r := make([]float64, m)
	for it := 0; it < 5000; it++ {
		for k := range th {
			th[k] = 0
			if X[k] > 0 {
				d := 0.0
				for i := 0; i < m; i++ {
					d += A[k][i] * lam[i]
				}
				th[k] = X[k] / d
			}
		}
		res := 0.0
		for i := 0; i < m; i++ {
			r[i] = 0
			for k := range th {
				r[i] += A[k][i] * th[k]
			}
			res = math.Max(res, math.Abs(r[i]-1))
		}
		if math.IsNaN(res) || math.IsInf(res, 0) {
			return nil, false
		}
		if res < 1e-13 {
			out := make([][]float64, m)
			for i := range out {
				out[i] = make([]float64, m)
				for j := range out[i] {
					out[i][j] = th[gid[i][j]]
				}
			}
			return out, true
		}
		for i := range lam {
			lam[i] *= r[i]
		}
	}
	return nil, false
}
