package main

// Mixtures: LogPdf, Posterior(component subset), Likelihood(component subset) against
// direct sums.  Reference: p(x) = sum_j w_j p_j(x) with w normalised;
// Posterior(S) = sum_{j in S} w_j p_j / p(x);  Likelihood(S) = sum_{j in S} w_j p_j / sum_{j in S} w_j.

import (
	"fmt"
	"math"

	ad "github.com/pbenner/autodiff"
	st "github.com/pbenner/autodiff/statistics"
	"github.com/pbenner/autodiff/statistics/generic"
	sd "github.com/pbenner/autodiff/statistics/scalarDistribution"
	vd "github.com/pbenner/autodiff/statistics/vectorDistribution"

	"verif/mc/vf"
)

type mixRec struct{ lp []float64 }

func (r mixRec) LogPdf(s ad.Scalar, c int) error { s.SetFloat64(r.lp[c]); return nil }

type libMix struct {
	name   string
	logPdf func() (float64, error)
	post   func(s []int) (float64, error)
	lik    func(s []int) (float64, error)
}

func buildMix(cs *MixCase) (*libMix, error) {
	l := &libMix{}
	k := len(cs.Weights)
	err := guard(func() error {
		w := ad.NewDenseFloat64Vector(append([]float64{}, cs.Weights...))
		call := func(f func(r ad.Scalar) error) (float64, error) {
			r := ad.NullFloat64()
			err := f(r)
			return r.GetFloat64(), err
		}
		switch cs.Route {
		case "mix-generic":
			l.name = "generic.Mixture"
			mx, err := generic.NewMixture(w)
			if err != nil {
				return err
			}
			rec := mixRec{make([]float64, k)}
			for c := 0; c < k; c++ {
				rec.lp[c] = math.Log(cs.Table[c][cs.X])
			}
			l.logPdf = func() (float64, error) { return call(func(r ad.Scalar) error { return mx.LogPdf(r, rec) }) }
			l.post = func(s []int) (float64, error) {
				return call(func(r ad.Scalar) error { return mx.Posterior(r, rec, s) })
			}
			l.lik = func(s []int) (float64, error) {
				return call(func(r ad.Scalar) error { return mx.Likelihood(r, rec, s) })
			}
		case "mix-scalar":
			l.name = "scalarDistribution.Mixture[" + cs.Family + "]"
			ed := make([]st.ScalarPdf, k)
			for c := range ed {
				d, err := scalarPdf(cs.Family, cs.Table[c])
				if err != nil {
					return err
				}
				ed[c] = d
			}
			mx, err := sd.NewMixture(w, ed)
			if err != nil {
				return err
			}
			x := ad.ConstFloat64(float64(cs.X))
			l.logPdf = func() (float64, error) { return call(func(r ad.Scalar) error { return mx.LogPdf(r, x) }) }
			l.post = func(s []int) (float64, error) {
				return call(func(r ad.Scalar) error { return mx.Posterior(r, x, s) })
			}
			l.lik = func(s []int) (float64, error) {
				return call(func(r ad.Scalar) error { return mx.Likelihood(r, x, s) })
			}
		case "mix-vector":
			l.name = "vectorDistribution.Mixture[" + cs.Family + "]"
			ed := make([]st.VectorPdf, k)
			for c := range ed {
				d, err := scalarPdf(cs.Family, cs.Table[c])
				if err != nil {
					return err
				}
				v, err := vd.NewScalarIid(d, 2)
				if err != nil {
					return err
				}
				ed[c] = v
			}
			mx, err := vd.NewMixture(w, ed)
			if err != nil {
				return err
			}
			x := ad.NewDenseFloat64Vector([]float64{float64(cs.X >> 1), float64(cs.X & 1)})
			l.logPdf = func() (float64, error) { return call(func(r ad.Scalar) error { return mx.LogPdf(r, x) }) }
			l.post = func(s []int) (float64, error) {
				return call(func(r ad.Scalar) error { return mx.Posterior(r, x, s) })
			}
			l.lik = func(s []int) (float64, error) {
				return call(func(r ad.Scalar) error { return mx.Likelihood(r, x, s) })
			}
		default:
			return fmt.Errorf("harness: unknown route %s", cs.Route)
		}
		return nil
	})
	return l, err
}

func mkey(name string, cs *MixCase, quantity, wh string) string {
	z := "n"
	for _, w := range cs.Weights {
		if w == 0 {
			z = "y"
		}
	}
	return fmt.Sprintf("%s|k=%d,zero-weight=%s|%s|%s", name, len(cs.Weights), z, quantity, wh)
}

func runMixCase(c *vf.Ctx, cs *MixCase, idx int64) {
	k := len(cs.Weights)
	rk := int64(k)<<40 | idx
	ac := AnyCase{Mix: cs}
	l, err := buildMix(cs)
	if err != nil {
		c.Violate(mkey(cs.Route, cs, "construct", errKind(err)), "valid mixture rejected: "+err.Error(), rk, ac)
		return
	}
	viol := func(routine, quantity, wh, msg string) {
		c.Violate(mkey(l.name+"."+routine, cs, quantity, wh), fmt.Sprintf("%s: %s [weights=%v components=%v x=%d]", routine, msg, cs.Weights, cs.Table, cs.X), rk, ac)
	}
	fam := cs.Family
	if cs.Route == "mix-vector" {
		fam = "iid-" + fam
	}
	wsum := 0.0
	for _, w := range cs.Weights {
		wsum += w
	}
	wp := make([]float64, k)
	total := 0.0
	npos := 0
	for j := 0; j < k; j++ {
		wp[j] = cs.Weights[j] / wsum * emit(fam, cs.Table[j], cs.X)
		total += wp[j]
		if wp[j] > 0 {
			npos++
		}
	}
	c.Eval(1)
	if npos >= 2 {
		c.Nontrivial(1)
	}
	var v float64
	e := guard(func() (e error) { v, e = l.logPdf(); return })
	if e != nil {
		viol("LogPdf", "logpdf", errKind(e), e.Error())
	} else if !logOK(v, total) {
		viol("LogPdf", "logpdf", what(v), describe(v, total))
	}
	if total == 0 {
		c.Outcome("mix:zero-mass")
		return
	}
	for _, s := range subsets(k) {
		num, ws := 0.0, 0.0
		for _, j := range s {
			num += wp[j]
			ws += cs.Weights[j] / wsum
		}
		e := guard(func() (e error) { v, e = l.post(s); return })
		if e != nil {
			viol("Posterior", "posterior", errKind(e), fmt.Sprintf("subset %v: %v", s, e))
		} else if !logOK(v, num/total) {
			viol("Posterior", "posterior", what(v), fmt.Sprintf("subset %v: %s", s, describe(v, num/total)))
		}
		if ws > 0 {
			e := guard(func() (e error) { v, e = l.lik(s); return })
			if e != nil {
				viol("Likelihood", "likelihood", errKind(e), fmt.Sprintf("subset %v: %v", s, e))
			} else if !logOK(v, num/ws) {
				viol("Likelihood", "likelihood", what(v), fmt.Sprintf("subset %v: %s", s, describe(v, num/ws)))
			}
		}
	}
	c.Outcome(fmt.Sprintf("mix:ok:k=%d,positive-components=%d", k, npos))
}

func weightVectors(k int) [][]float64 {
	alph := quarter
	if k == 3 {
		alph = half
	}
	var out [][]float64
	for _, w := range rowsOver(k, alph) {
		s := 0.0
		for _, x := range w {
			s += x
		}
		if s > 0 {
			out = append(out, w)
		}
	}
	return out
}

func runMixtures(c *vf.Ctx, thorough bool) {
	var idx int64
	each := func(cs MixCase) {
		idx++
		if c.Mine(idx) {
			c.Guard("mixture", idx, AnyCase{Mix: &cs})
			runMixCase(c, &cs, idx)
		}
	}
	for k := 1; k <= 3; k++ {
		all := make([]bool, k)
		for i := range all {
			all[i] = true
		}
		for _, w := range weightVectors(k) {
			// generic mixture: component likelihood vector from {1,1/2,1/4,0}^k
			for _, tb := range tables(k, 1, all, []float64{1, 0.5, 0.25, 0}) {
				each(MixCase{Route: "mix-generic", Family: "table", Weights: w, Table: tb, X: 0})
			}
			emAlph := []float64{1, 0.5, 0}
			if thorough && k < 3 {
				emAlph = []float64{1, 0.5, 0.25, 0}
			}
			for _, tb := range tables(k, 2, all, emAlph) {
				for x := 0; x < 2; x++ {
					each(MixCase{Route: "mix-scalar", Family: "categorical", Weights: w, Table: tb, X: x})
				}
				if k < 3 || thorough {
					for x := 0; x < 4; x++ {
						each(MixCase{Route: "mix-vector", Family: "categorical", Weights: w, Table: tb, X: x})
					}
				}
			}
			for _, fam := range []string{"poisson", "normal"} {
				opts := [][]float64{{1}, {0.5}, {2}}
				if fam == "normal" {
					opts = [][]float64{{0, 1}, {1, 0.5}, {-1, 2}}
				}
				for _, t := range tuples(k, len(opts)) {
					tb := make([][]float64, k)
					for j, o := range t {
						tb[j] = opts[o]
					}
					for x := 0; x < 3; x++ {
						each(MixCase{Route: "mix-scalar", Family: fam, Weights: w, Table: tb, X: x})
					}
				}
			}
		}
	}
}
