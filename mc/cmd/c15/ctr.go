package main

// Constructors on input that cannot be normalised (all-zero probability vector): the
// library must report an error (or return a usable object); a nil error together with an
// empty object, or a panic in the public model constructor, is reported.

import (
	"fmt"
	"math"

	ad "github.com/pbenner/autodiff"
	"github.com/pbenner/autodiff/statistics/generic"
	md "github.com/pbenner/autodiff/statistics/matrixDistribution"
	vd "github.com/pbenner/autodiff/statistics/vectorDistribution"

	"verif/mc/vf"
)

type CtrCase struct {
	Kind  string `json:"kind"`
	M     int    `json:"m"`
	IsLog bool   `json:"is_log"`
}

func runCtrCases(c *vf.Ctx) {
	for m := 1; m <= 3; m++ {
		for _, kind := range []string{"generic.NewHmmProbabilityVector", "vectorDistribution.NewHmm", "matrixDistribution.NewHmm"} {
			for _, isLog := range []bool{false, true} {
				if isLog && kind != "generic.NewHmmProbabilityVector" {
					continue
				}
				cs := &CtrCase{Kind: kind, M: m, IsLog: isLog}
				c.Eval(1)
				runCtrCase(c, cs)
			}
		}
	}
}

func runCtrCase(c *vf.Ctx, cs *CtrCase) {
	m := cs.M
	pi := ad.NullDenseFloat64Vector(m)
	tr := ad.NullDenseFloat64Matrix(m, m)
	for i := 0; i < m; i++ {
		tr.At(i, i).SetFloat64(1)
	}
	if cs.IsLog {
		for i := 0; i < m; i++ {
			pi.At(i).SetFloat64(math.Inf(-1))
		}
	}
	key := func(w string) string { return fmt.Sprintf("%s|pi=all-zero|construct|%s", cs.Kind, w) }
	var gotErr error
	empty := false
	perr := guard(func() error {
		switch cs.Kind {
		case "generic.NewHmmProbabilityVector":
			p, err := generic.NewHmmProbabilityVector(pi, cs.IsLog)
			gotErr = err
			empty = err == nil && p.GetVector() == nil
		case "vectorDistribution.NewHmm":
			h, err := vd.NewHmm(pi, tr, nil, nil)
			gotErr = err
			empty = err == nil && h == nil
		case "matrixDistribution.NewHmm":
			h, err := md.NewHmm(pi, tr, nil, nil)
			gotErr = err
			empty = err == nil && h == nil
		}
		return nil
	})
	switch {
	case perr != nil:
		c.Violate(key("panic"), fmt.Sprintf("%s with an all-zero initial distribution (m=%d) panics instead of returning an error: %v", cs.Kind, m, perr), int64(m), AnyCase{Ctr: cs})
		c.Outcome("ctr:panic")
	case empty:
		c.Violate(key("nil-error-with-empty-result"), fmt.Sprintf("%s with an all-zero initial distribution (m=%d) returns an empty object and a nil error", cs.Kind, m), int64(m), AnyCase{Ctr: cs})
		c.Outcome("ctr:empty")
	case gotErr != nil:
		c.Outcome("ctr:error")
	default:
		c.Outcome("ctr:object")
	}
}
