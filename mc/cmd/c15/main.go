// C15: HMM and mixture inference equals explicit enumeration of all hidden paths.
//
// Bounded-exhaustive: every small model (states, stochastic pi / transition rows incl.
// zeros, state->emission-class map, start/final restrictions) x every emission table x
// every observation sequence is run through the real library (generic.Hmm with a harness
// data record; vectorDistribution.Hmm / matrixDistribution.Hmm end to end; the
// vectorClassifier wrappers; generic / scalar / vector mixtures) and compared with a
// brute-force sum over all m^n hidden paths whose semantics is recomputed from the raw
// inputs.  See oracle.go for the definition used.
package main

import (
	"encoding/json"
	"fmt"
	"math"
	"strings"

	"verif/mc/vf"
)

/* -------------------------------------------------------------------------- */

type Model struct {
	M     int         `json:"m"`
	Pi    []float64   `json:"pi"`
	Tr    [][]float64 `json:"tr"`
	Map   []int       `json:"state_map"`
	Start []int       `json:"start_states,omitempty"`
	Final []int       `json:"final_states,omitempty"`
}

// Case is one replayable HMM case.
type Case struct {
	Route  string      `json:"route"`  // generic | vector | matrix
	Family string      `json:"family"` // table | categorical | poisson | normal | iid-categorical
	Elem   string      `json:"elem"`   // float64 | real64  (scalar type of the model parameters)
	Model  Model       `json:"model"`
	Table  [][]float64 `json:"emission"` // per emission class: probabilities per symbol, or family parameters
	Seq    []int       `json:"sequence"`
	Pad    int         `json:"pad,omitempty"`
}

// MixCase is one replayable mixture case.
type MixCase struct {
	Route   string      `json:"route"` // mix-generic | mix-scalar | mix-vector
	Family  string      `json:"family"`
	Weights []float64   `json:"weights"`
	Table   [][]float64 `json:"emission"` // per component
	X       int         `json:"x"`
}

type AnyCase struct {
	Hmm *Case    `json:"hmm,omitempty"`
	Mix *MixCase `json:"mixture,omitempty"`
	Ctr *CtrCase `json:"constructor,omitempty"`
	BW  *BWCase  `json:"baum_welch_step,omitempty"`
}

/* enumeration helpers
 * -------------------------------------------------------------------------- */

// stochastic vectors of length m with entries from alph (ascending) that sum to one
func stoch(m int, alph []float64) [][]float64 {
	var out [][]float64
	cur := make([]float64, m)
	var rec func(i int, rest float64)
	rec = func(i int, rest float64) {
		if i == m-1 {
			for _, a := range alph {
				if a == rest {
					cur[i] = a
					out = append(out, append([]float64{}, cur...))
				}
			}
			return
		}
		for _, a := range alph {
			if a <= rest {
				cur[i] = a
				rec(i+1, rest-a)
			}
		}
	}
	rec(0, 1)
	return out
}

// all tuples of length n over {0..k-1}
func tuples(n, k int) [][]int {
	out := [][]int{{}}
	for i := 0; i < n; i++ {
		var nx [][]int
		for _, t := range out {
			for v := 0; v < k; v++ {
				nx = append(nx, append(append([]int{}, t...), v))
			}
		}
		out = nx
	}
	return out
}

func restrictions(m int) [][]int {
	switch m {
	case 1:
		return [][]int{nil, {0}}
	case 2:
		return [][]int{nil, {0}, {1}, {0, 1}}
	default:
		return [][]int{nil, {0}, {m - 1}, {0, 1}}
	}
}

// non-empty subsets of {0..m-1} as sorted lists
func subsets(m int) [][]int {
	var out [][]int
	for b := 1; b < 1<<m; b++ {
		var s []int
		for i := 0; i < m; i++ {
			if b&(1<<i) != 0 {
				s = append(s, i)
			}
		}
		out = append(out, s)
	}
	return out
}

func rowsOver(n int, alph []float64) [][]float64 {
	out := [][]float64{{}}
	for i := 0; i < n; i++ {
		var nx [][]float64
		for _, t := range out {
			for _, v := range alph {
				nx = append(nx, append(append([]float64{}, t...), v))
			}
		}
		out = nx
	}
	return out
}

// emission tables: one row (over nsym symbols) per class; classes not in `used` keep a
// fixed row of ones (they cannot influence anything)
func tables(nclass, nsym int, used []bool, alph []float64) [][][]float64 {
	rows := rowsOver(nsym, alph)
	out := [][][]float64{{}}
	for c := 0; c < nclass; c++ {
		var nx [][][]float64
		for _, t := range out {
			if !used[c] {
				one := make([]float64, nsym)
				for i := range one {
					one[i] = 1
				}
				nx = append(nx, append(append([][]float64{}, t...), one))
				continue
			}
			for _, r := range rows {
				nx = append(nx, append(append([][]float64{}, t...), r))
			}
		}
		out = nx
	}
	return out
}

type bounds struct {
	piAlph, trAlph []float64 // stochastic-vector alphabets
	emAlph         []float64 // emission table alphabet
	nmin, nmax     int       // sequence length (nmin 0 = 1)
	postN          int       // Posterior(state sets) up to this length
}

var (
	quarter = []float64{0, 0.25, 0.5, 0.75, 1}
	half    = []float64{0, 0.5, 1}
	binary  = []float64{0, 1}
)

/* -------------------------------------------------------------------------- */

func mkModels(m int, b bounds, f func(md Model)) {
	pis := stoch(m, b.piAlph)
	rows := stoch(m, b.trAlph)
	trs := tuples(m, len(rows))
	maps := tuples(m, m)
	rs := restrictions(m)
	for _, st := range rs {
		for _, fi := range rs {
			for _, mp := range maps {
				for _, pi := range pis {
					for _, ti := range trs {
						tr := make([][]float64, m)
						for i := range tr {
							tr[i] = rows[ti[i]]
						}
						f(Model{M: m, Pi: pi, Tr: tr, Map: mp, Start: st, Final: fi})
					}
				}
			}
		}
	}
}

func usedClasses(mp []int) (int, []bool) {
	n := 0
	for _, c := range mp {
		if c+1 > n {
			n = c + 1
		}
	}
	u := make([]bool, n)
	for _, c := range mp {
		u[c] = true
	}
	return n, u
}

func seqsUpTo(nmax, nsym int, firstZero bool) [][]int { return seqsRange(1, nmax, nsym, firstZero) }

func seqsRange(nmin, nmax, nsym int, firstZero bool) [][]int {
	var out [][]int
	if nmin < 1 {
		nmin = 1
	}
	for n := nmin; n <= nmax; n++ {
		for _, s := range tuples(n, nsym) {
			if firstZero && s[0] != 0 {
				continue
			}
			out = append(out, s)
		}
	}
	return out
}

/* -------------------------------------------------------------------------- */

type runner struct {
	c   *vf.Ctx
	idx int64
}

// sweep of the generic route: model x table x sequence
func (r *runner) sweepGeneric(m int, b bounds, elem string, pad int) {
	c := r.c
	seqs := seqsRange(b.nmin, b.nmax, 2, true)
	mkModels(m, b, func(md Model) {
		r.idx++
		if !c.Mine(r.idx) {
			return
		}
		sm := semantics(md)
		if !sm.ok {
			c.Count("generic_models_inadmissible:"+sm.why, 1)
			c.Outcome("inadmissible:" + sm.why)
			return
		}
		c.Count("generic_models", 1)
		lib, err := buildGeneric(md, elem)
		if err != nil {
			cs := Case{Route: "generic", Family: "table", Elem: elem, Model: md}
			c.Violate(hkey("generic.NewHmm", md, "construct", "error"), "admissible model rejected: "+err.Error(), rank(md, 0, r.idx), AnyCase{Hmm: &cs})
			return
		}
		snap := lib.snapshot()
		nc, used := usedClasses(md.Map)
		for _, tb := range tables(nc, 2, used, b.emAlph) {
			for _, sq := range seqs {
				cs := Case{Route: "generic", Family: "table", Elem: elem, Model: md, Table: tb, Seq: sq, Pad: pad}
				c.Guard("generic", rank(md, len(sq), r.idx), AnyCase{Hmm: &cs})
				runHmmCase(c, &cs, lib, sm, b.postN, r.idx)
			}
		}
		if lib.snapshot() != snap {
			cs := Case{Route: "generic", Family: "table", Elem: elem, Model: md}
			c.Violate(hkey("generic.Hmm", md, "model", "mutated-by-query"), "model parameters changed by read-only queries: "+snap+" -> "+lib.snapshot(), rank(md, 0, r.idx), AnyCase{Hmm: &cs})
		}
	})
}

// end-to-end sweeps: model x family parameters x sequence (all sequences, no symmetry)
func (r *runner) sweepE2E(route, family string, m int, b bounds, params func(nclass int, used []bool) [][][]float64, nsym int) {
	c := r.c
	seqs := seqsUpTo(b.nmax, nsym, false)
	mkModels(m, b, func(md Model) {
		r.idx++
		if !c.Mine(r.idx) {
			return
		}
		sm := semantics(md)
		if !sm.ok {
			c.Outcome("inadmissible:" + sm.why)
			return
		}
		c.Count(route+"_"+family+"_models", 1)
		nc, used := usedClasses(md.Map)
		for _, tb := range params(nc, used) {
			cs0 := Case{Route: route, Family: family, Elem: "float64", Model: md, Table: tb}
			lib, err := buildE2E(&cs0)
			if err != nil {
				c.Violate(hkey(route+".NewHmm["+family+"]", md, "construct", "error"), "admissible model rejected: "+err.Error(), rank(md, 0, r.idx), AnyCase{Hmm: &cs0})
				continue
			}
			for _, sq := range seqs {
				cs := cs0
				cs.Seq = sq
				c.Guard(route, rank(md, len(sq), r.idx), AnyCase{Hmm: &cs})
				runHmmCase(c, &cs, lib, sm, b.postN, r.idx)
			}
		}
	})
}

func rank(md Model, n int, idx int64) int64 {
	z := 0
	for _, p := range md.Pi {
		if p == 0 {
			z++
		}
	}
	for _, r := range md.Tr {
		for _, p := range r {
			if p == 0 {
				z++
			}
		}
	}
	nr := 0
	if md.Start != nil {
		nr++
	}
	if md.Final != nil {
		nr++
	}
	return int64(md.M)<<56 | int64(n)<<50 | int64(nr)<<46 | int64(z)<<40 | (idx & (1<<40 - 1))
}

// hkey: structural signature  routine | model class | quantity | what differs.
// Model class: number of states, which restrictions are set, whether pi/Tr contain zero
// probabilities. The end-to-end wrappers delegate to generic.Hmm, so for them only the
// routine is the signature (one defect = a handful of keys); the witness shows the model.
func hkey(routine string, md Model, quantity, what string) string {
	z := "n"
	for _, p := range md.Pi {
		if p == 0 {
			z = "y"
		}
	}
	for _, r := range md.Tr {
		for _, p := range r {
			if p == 0 {
				z = "y"
			}
		}
	}
	restr := "none"
	switch {
	case md.Start != nil && md.Final != nil:
		restr = "start+final"
	case md.Start != nil:
		restr = "start"
	case md.Final != nil:
		restr = "final"
	}
	if strings.HasPrefix(routine, "generic.") {
		ms := "m=1"
		if md.M > 1 {
			ms = "m>=2"
		}
		return fmt.Sprintf("%s|%s,restr=%s,zeros=%s|%s|%s", routine, ms, restr, z, quantity, what)
	}
	return fmt.Sprintf("%s|any|%s|%s", routine, quantity, what)
}

/* -------------------------------------------------------------------------- */

func run(c *vf.Ctx) {
	r := &runner{c: c}
	selfTest(c)
	thorough := c.Thorough()

	// constructors on un-normalisable input
	if c.Shard == 0 {
		runCtrCases(c)
	}

	// ---- generic Hmm through the harness table record
	r.sweepGeneric(1, bounds{piAlph: quarter, trAlph: quarter, emAlph: []float64{1, 0.5, 0.25, 0}, nmax: 4, postN: 3}, "float64", 0)
	if thorough {
		r.sweepGeneric(2, bounds{piAlph: quarter, trAlph: quarter, emAlph: []float64{1, 0.5, 0.25, 0}, nmax: 5, postN: 3}, "float64", 0)
		r.sweepGeneric(3, bounds{piAlph: half, trAlph: half, emAlph: []float64{1, 0.5}, nmax: 3, postN: 2}, "float64", 1)
		r.sweepGeneric(3, bounds{piAlph: half, trAlph: half, emAlph: []float64{1, 0}, nmax: 3, postN: 1}, "float64", 0)
		r.sweepGeneric(3, bounds{piAlph: half, trAlph: binary, emAlph: []float64{1, 0}, nmax: 4, postN: 2}, "float64", 0)
		r.sweepGeneric(3, bounds{piAlph: binary, trAlph: binary, emAlph: []float64{1, 0}, nmin: 3, nmax: 3, postN: 3}, "float64", 0)
		r.sweepGeneric(2, bounds{piAlph: half, trAlph: half, emAlph: []float64{1, 0.5, 0}, nmax: 3, postN: 3}, "real64", 1)
	} else {
		r.sweepGeneric(2, bounds{piAlph: quarter, trAlph: quarter, emAlph: []float64{1, 0.5, 0}, nmax: 3, postN: 3}, "float64", 0)
		r.sweepGeneric(2, bounds{piAlph: half, trAlph: half, emAlph: []float64{1, 0.25, 0}, nmax: 4, postN: 0}, "float64", 1)
		r.sweepGeneric(3, bounds{piAlph: half, trAlph: binary, emAlph: []float64{1, 0}, nmax: 3, postN: 2}, "float64", 0)
		r.sweepGeneric(2, bounds{piAlph: binary, trAlph: half, emAlph: []float64{1, 0.5, 0}, nmax: 3, postN: 2}, "real64", 1)
	}

	// ---- end to end: vectorDistribution.Hmm / matrixDistribution.Hmm and classifiers
	catTables := func(alph []float64) func(int, []bool) [][][]float64 {
		return func(nc int, used []bool) [][][]float64 { return tables(nc, 2, used, alph) }
	}
	// Poisson rates / normal (mu,sigma) per class from a small parameter alphabet
	famParams := func(opts [][]float64) func(int, []bool) [][][]float64 {
		return func(nc int, used []bool) [][][]float64 {
			out := [][][]float64{{}}
			for cl := 0; cl < nc; cl++ {
				var nx [][][]float64
				for _, t := range out {
					for oi, o := range opts {
						if !used[cl] && oi > 0 {
							break
						}
						nx = append(nx, append(append([][]float64{}, t...), o))
					}
				}
				out = nx
			}
			return out
		}
	}
	poisson := famParams([][]float64{{1}, {0.5}, {2}})
	normal := famParams([][]float64{{0, 1}, {1, 0.5}, {-1, 2}})
	if thorough {
		r.sweepE2E("vector", "categorical", 1, bounds{piAlph: quarter, trAlph: quarter, emAlph: []float64{1, 0.5, 0.25, 0}, nmax: 4, postN: 3}, catTables([]float64{1, 0.5, 0.25, 0}), 2)
		r.sweepE2E("vector", "categorical", 2, bounds{piAlph: quarter, trAlph: quarter, emAlph: nil, nmax: 4, postN: 3}, catTables([]float64{1, 0.5, 0}), 2)
		r.sweepE2E("vector", "categorical", 3, bounds{piAlph: half, trAlph: binary, nmax: 3, postN: 2}, catTables([]float64{1, 0}), 2)
		r.sweepE2E("vector", "poisson", 2, bounds{piAlph: quarter, trAlph: quarter, nmax: 4, postN: 3}, poisson, 3)
		r.sweepE2E("vector", "normal", 2, bounds{piAlph: quarter, trAlph: quarter, nmax: 3, postN: 3}, normal, 3)
		r.sweepE2E("matrix", "iid-categorical", 2, bounds{piAlph: quarter, trAlph: quarter, nmax: 2, postN: 2}, catTables([]float64{1, 0.5, 0}), 4)
		r.sweepE2E("matrix", "iid-categorical", 3, bounds{piAlph: binary, trAlph: binary, nmax: 2, postN: 2}, catTables([]float64{1, 0}), 4)
	} else {
		r.sweepE2E("vector", "categorical", 1, bounds{piAlph: quarter, trAlph: quarter, nmax: 3, postN: 3}, catTables([]float64{1, 0.5, 0}), 2)
		r.sweepE2E("vector", "categorical", 2, bounds{piAlph: half, trAlph: quarter, nmax: 3, postN: 3}, catTables([]float64{1, 0.5, 0}), 2)
		r.sweepE2E("vector", "poisson", 2, bounds{piAlph: half, trAlph: half, nmax: 3, postN: 2}, poisson, 3)
		r.sweepE2E("vector", "normal", 2, bounds{piAlph: half, trAlph: half, nmax: 3, postN: 2}, normal, 2)
		r.sweepE2E("matrix", "iid-categorical", 2, bounds{piAlph: half, trAlph: half, nmax: 2, postN: 2}, catTables([]float64{1, 0.5, 0}), 4)
	}

	// ---- data sets of 1-2 sequences: E-step statistics of one Baum-Welch iteration
	if thorough {
		r.sweepBW(1, bounds{piAlph: half, trAlph: half, emAlph: []float64{1, 0.5, 0}, nmax: 3}, 2)
		r.sweepBW(2, bounds{piAlph: quarter, trAlph: quarter, emAlph: []float64{1, 0.5, 0}, nmax: 4}, 2)
		r.sweepBW(3, bounds{piAlph: half, trAlph: binary, emAlph: []float64{1, 0}, nmax: 3}, 1)
	} else {
		r.sweepBW(1, bounds{piAlph: half, trAlph: half, emAlph: []float64{1, 0.5, 0}, nmax: 3}, 2)
		r.sweepBW(2, bounds{piAlph: half, trAlph: half, emAlph: []float64{1, 0.5, 0}, nmax: 3}, 2)
	}

	// ---- mixtures
	runMixtures(c, thorough)
}

/* -------------------------------------------------------------------------- */

func replay(c *vf.Ctx, raw json.RawMessage) {
	var ac AnyCase
	if err := json.Unmarshal(raw, &ac); err != nil {
		c.HarnessError(err.Error())
		return
	}
	switch {
	case ac.Hmm != nil:
		cs := ac.Hmm
		sm := semantics(cs.Model)
		if !sm.ok {
			return
		}
		var lib *libHmm
		var err error
		if cs.Route == "generic" {
			lib, err = buildGeneric(cs.Model, cs.Elem)
		} else {
			lib, err = buildE2E(cs)
		}
		if err != nil {
			routine := "generic.NewHmm"
			if cs.Route != "generic" {
				routine = cs.Route + ".NewHmm[" + cs.Family + "]"
			}
			c.Violate(hkey(routine, cs.Model, "construct", "error"), "admissible model rejected: "+err.Error(), 0, ac)
			return
		}
		if cs.Seq == nil {
			// model-level artefact (mutation by queries): re-run every table/sequence of the quick bound
			snap := lib.snapshot()
			nc, used := usedClasses(cs.Model.Map)
			for _, tb := range tables(nc, 2, used, []float64{1, 0.5, 0}) {
				for _, sq := range seqsUpTo(3, 2, true) {
					c2 := *cs
					c2.Table, c2.Seq = tb, sq
					runHmmCase(c, &c2, lib, sm, 3, 0)
				}
			}
			if lib.snapshot() != snap {
				c.Violate(hkey("generic.Hmm", cs.Model, "model", "mutated-by-query"), "model parameters changed by read-only queries", 0, ac)
			}
			return
		}
		runHmmCase(c, cs, lib, sm, 3, 0)
	case ac.Mix != nil:
		runMixCase(c, ac.Mix, 0)
	case ac.Ctr != nil:
		runCtrCase(c, ac.Ctr)
	case ac.BW != nil:
		runBWCase(c, ac.BW, 0)
	}
}

func main() {
	vf.Main(vf.Spec{
		ID:    "C15",
		Level: "exploration",
		Rule: "exhaustive product: HMMs with m in {1,2,3} states, pi and every transition row from all stochastic vectors over a dyadic alphabet (zeros included), all m^m state->emission-class maps, start and final restriction each in {none,{0},{m-1},{0,1}}, all emission tables over a small alphabet (zero emissions included), all observation sequences up to the length bound (generic route: one representative per symbol relabelling), all sequences of non-empty state subsets for Posterior; mixtures: all weight vectors, component likelihood tables and component subsets. " +
			"Every case runs the real library and is compared with a brute-force sum over all m^n hidden paths. A case is counted non-trivial when the data has positive probability and at least two hidden paths have positive probability (so sums/maxima really range over several paths); cases are distinct by construction of the product",
		Assume: []string{
			"model semantics as defined by the library's documented construction: pi restricted to the start states and renormalised; the LAST transition (only) uses the transition matrix restricted to the final-state columns with rows renormalised; models where the start restriction removes all mass of pi, or where a row has no mass on the final states (the library then substitutes a self-loop), are skipped as inadmissible and counted",
			"observations with zero total probability: only LogPdf=-Inf is demanded; PosteriorMarginals may fail with an error, Viterbi may return any path",
			"Viterbi: any maximiser is accepted",
			"state-set sequences are given as duplicate-free ascending lists",
			"tolerance 1e-10 (absolute on probabilities, relative-absolute on log values); exact zeros must be reported as -Inf",
		},
		Run:    run,
		Replay: replay,
	})
}

var _ = math.Inf
