// C15: HMM and mixture inference equals explicit enumeration of all hidden paths.
//
// Bounded-exhaustive: every small model (states, stochastic pi / transition rows incl.
// zeros, state->emission-class map, start/final restrictions) x every emission table x
// every observation sequence is run through the real library (generic.Hmm with a harness
// data record; vectorDistribution.Hmm / matrixDistribution.Hmm end to end; the
// vectorClassifier wrappers; generic / scalar / vector mixtures) and compared with a
// brute-force sum over all m^n hidden paths whose semantics is recomputed from the raw
// inputs.  See oracle.go for the definition used.
package main

import (
	"encoding/json"
	"fmt"
	"math"
	"strings"

	"verif/mc/vf"
)

/* -------------------------------------------------------------------------- */

type Model struct {
	M     int         `json:"m"`
	Pi    []float64   `json:"pi"`
	Tr    [][]float64 `json:"tr"`
	Map   []int       `json:"state_map"`
	Start []int       `json:"start_states,omitempty"`
	Final []int       `json:"final_states,omitempty"`
	// structured transition matrix (structure.go): "" plain, "constrained" with equality
	// constraints between cells, "hierarchical" with a tree over state ranges
	Kind        string     `json:"kind,omitempty"`
	Constraints [][][2]int `json:"constraints,omitempty"`
	Tree        *Tree      `json:"tree,omitempty"`
}

// Case is one replayable HMM case.
type Case struct {
	Route  string      `json:"route"`  // generic | vector | matrix
	Family string      `json:"family"` // table | categorical | poisson | normal | iid-categorical
	Elem   string      `json:"elem"`   // float64 | real64  (scalar type of the model parameters)
	Model  Model       `json:"model"`
	Table  [][]float64 `json:"emission"` // per emission class: probabilities per symbol, or family parameters
	Seq    []int       `json:"sequence"`
	Pad    int         `json:"pad,omitempty"`
}

// MixCase is one replayable mixture case.
type MixCase struct {
	Route   string      `json:"route"` // mix-generic | mix-scalar | mix-vector
	Family  string      `json:"family"`
	Weights []float64   `json:"weights"`
	Table   [][]float64 `json:"emission"` // per component
	X       int         `json:"x"`
}

type AnyCase struct {
	Hmm *Case    `json:"hmm,omitempty"`
	Mix *MixCase `json:"mixture,omitempty"`
	Ctr *CtrCase `json:"constructor,omitempty"`
	BW  *BWCase  `json:"baum_welch_step,omitempty"`
}

/* enumeration helpers
 * -------------------------------------------------------------------------- */

// stochastic vectors of length m with entries from alph (ascending) that sum to one
func stoch(m int, alph []float64) [][]float64 {
	var out [][]float64
	cur := make([]float64, m)
	var rec func(i int, rest float64)
	rec = func(i int, rest float64) {
		if i == m-1 {
			for _, a := range alph {
				if a == rest {
					cur[i] = a
					out = append(out, append([]float64{}, cur...))
				}
			}
			return
		}
		for _, a := range alph {
			if a <= rest {
				cur[i] = a
				rec(i+1, rest-a)
			}
		}
	}
	rec(0, 1)
	return out
}

// all tuples of length n over {0..k-1}
func tuples(n, k int) [][]int {
	out := [][]int{{}}
	for i := 0; i < n; i++ {
		var nx [][]int
		for _, t := range out {
			for v := 0; v < k; v++ {
				nx = append(nx, append(append([]int{}, t...), v))
			}
		}
		out = nx
	}
	return out
}

// restrictions: nil (none) and, with all=true, every non-empty subset of the states;
// otherwise the legacy selection {none,{0},{m-1},{0,1}}
func restrictions(m int, all bool) [][]int {
	if all {
		return append([][]int{nil}, subsets(m)...)
	}
	switch m {
	case 1:
		return [][]int{nil, {0}}
	case 2:
		return [][]int{nil, {0}, {1}, {0, 1}}
	default:
		return [][]int{nil, {0}, {m - 1}, {0, 1}}
	}
}

// non-empty subsets of {0..m-1} as sorted lists
func subsets(m int) [][]int {
	var out [][]int
	for b := 1; b < 1<<m; b++ {
		var s []int
		for i := 0; i < m; i++ {
			if b&(1<<i) != 0 {
				s = append(s, i)
			}
		}
		out = append(out, s)
	}
	return out
}

func rowsOver(n int, alph []float64) [][]float64 {
	out := [][]float64{{}}
	for i := 0; i < n; i++ {
		var nx [][]float64
		for _, t := range out {
			for _, v := range alph {
				nx = append(nx, append(append([]float64{}, t...), v))
			}
		}
		out = nx
	}
	return out
}

// emission tables: one row (over nsym symbols) per class; classes not in `used` keep a
// fixed row of ones (they cannot influence anything)
func tables(nclass, nsym int, used []bool, alph []float64) [][][]float64 {
	return tablesOf(nclass, nsym, used, alph, false)
}

// noDead: rows that give probability zero to every symbol (a state that can never be
// visited) are left out
func tablesOf(nclass, nsym int, used []bool, alph []float64, noDead bool) [][][]float64 {
	rows := rowsOver(nsym, alph)
	if noDead {
		var keep [][]float64
		for _, r := range rows {
			s := 0.0
			for _, v := range r {
				s += v
			}
			if s > 0 {
				keep = append(keep, r)
			}
		}
		rows = keep
	}
	out := [][][]float64{{}}
	for c := 0; c < nclass; c++ {
		var nx [][][]float64
		for _, t := range out {
			if !used[c] {
				one := make([]float64, nsym)
				for i := range one {
					one[i] = 1
				}
				nx = append(nx, append(append([][]float64{}, t...), one))
				continue
			}
			for _, r := range rows {
				nx = append(nx, append(append([][]float64{}, t...), r))
			}
		}
		out = nx
	}
	return out
}

type bounds struct {
	piAlph, trAlph []float64 // stochastic-vector alphabets
	emAlph         []float64 // emission table alphabet
	nmin, nmax     int       // sequence length (nmin 0 = 1)
	postN          int       // Posterior(state sets) up to this length
	// structure dimension (nil = plain HMM only) and the constraint alphabet of the
	// constrained kind ("pairs" | "partitions")
	kinds   []string
	consHow string
	// allRestr: start and final restriction each range over none and ALL non-empty subsets;
	// restrUnion: not the full product of the two but (any start, no final), (no start, any
	// final) and (start = final)
	allRestr, restrUnion bool
	// noStart: no start restriction at all (the final restriction still ranges over its set)
	noStart bool
	// idConstMaps: only the identity state map and the constant map (every state emits from
	// class 0: the likelihood then only measures the total mass of the model); idMap: only
	// the identity map
	idConstMaps, idMap bool
	// noDeadRows: emission tables without all-zero rows
	noDeadRows bool
	// piList: explicit list of initial distributions instead of all stochastic vectors over
	// piAlph
	piList [][]float64
	// properTrees: hierarchical kind without the single-leaf tree (which is the plain
	// normalisation under another constructor)
	properTrees bool
}

var structured = []string{kindConstrained, kindHierarchical}

var (
	quarter = []float64{0, 0.25, 0.5, 0.75, 1}
	half    = []float64{0, 0.5, 1}
	binary  = []float64{0, 1}
)

/* -------------------------------------------------------------------------- */

func mkModels(m int, b bounds, f func(md Model)) {
	pis := stoch(m, b.piAlph)
	if b.piList != nil {
		pis = b.piList
	}
	rows := stoch(m, b.trAlph)
	trs := tuples(m, len(rows))
	maps := tuples(m, m)
	if b.idConstMaps || b.idMap {
		id := make([]int, m)
		for i := range id {
			id[i] = i
		}
		maps = [][]int{id}
		if m > 1 && !b.idMap {
			maps = append(maps, make([]int, m))
		}
	}
	rs := restrictions(m, b.allRestr)
	kinds := b.kinds
	if kinds == nil {
		kinds = []string{kindPlain}
	}
	how := b.consHow
	if how == "" {
		how = "pairs"
	}
	sameSet := func(a, b []int) bool {
		if (a == nil) != (b == nil) || len(a) != len(b) {
			return false
		}
		for i := range a {
			if a[i] != b[i] {
				return false
			}
		}
		return true
	}
	for _, sx := range structures(m, kinds, how) {
		if b.properTrees && sx.tree != nil && len(sx.tree.Children) == 0 {
			continue
		}
		md0 := Model{M: m, Kind: sx.kind, Constraints: sx.constraints, Tree: sx.tree}
		groups := md0.tieGroups()
		for _, st := range rs {
			for _, fi := range rs {
				if b.restrUnion && st != nil && fi != nil && !sameSet(st, fi) {
					continue
				}
				if b.noStart && st != nil {
					continue
				}
				for _, mp := range maps {
					for _, pi := range pis {
						for _, ti := range trs {
							tr := make([][]float64, m)
							for i := range tr {
								tr[i] = rows[ti[i]]
							}
							// structured matrices are supplied normalised AND tie-consistent:
							// then the supplied matrix is the model's matrix (fixed point of
							// the library's normalisation) and no read-back is needed
							if groups != nil && !tieConsistent(tr, groups) {
								continue
							}
							md := md0
							md.Pi, md.Tr, md.Map, md.Start, md.Final = pi, tr, mp, st, fi
							f(md)
						}
					}
				}
			}
		}
	}
}

func usedClasses(mp []int) (int, []bool) {
	n := 0
	for _, c := range mp {
		if c+1 > n {
			n = c + 1
		}
	}
	u := make([]bool, n)
	for _, c := range mp {
		u[c] = true
	}
	return n, u
}

func seqsUpTo(nmax, nsym int, firstZero bool) [][]int { return seqsRange(1, nmax, nsym, firstZero) }

func seqsRange(nmin, nmax, nsym int, firstZero bool) [][]int {
	var out [][]int
	if nmin < 1 {
		nmin = 1
	}
	for n := nmin; n <= nmax; n++ {
		for _, s := range tuples(n, nsym) {
			if firstZero && s[0] != 0 {
				continue
			}
			out = append(out, s)
		}
	}
	return out
}

/* -------------------------------------------------------------------------- */

type runner struct {
	c   *vf.Ctx
	idx int64
}

// sweep of the generic route: model x table x sequence
func (r *runner) sweepGeneric(m int, b bounds, elem string, pad int) {
	c := r.c
	seqs := seqsRange(b.nmin, b.nmax, 2, true)
	mkModels(m, b, func(md Model) {
		r.idx++
		if !c.Mine(r.idx) {
			return
		}
		ks := kindSuffix(md.Kind)
		sm := semantics(md)
		if !sm.ok {
			c.Count("generic"+ks+"_models_inadmissible:"+sm.why, 1)
			c.Outcome("inadmissible:" + sm.why)
			if !sm.modelOnly {
				return
			}
		}
		c.Count("generic"+ks+"_models", 1)
		cs0 := Case{Route: "generic", Family: "table", Elem: elem, Model: md}
		lib, err := buildGeneric(md, elem)
		if err != nil {
			c.Violate(hkey("generic.NewHmm"+ks, md, "construct", "error"), "admissible model rejected: "+err.Error()+structNote(md), rank(md, 0, r.idx), AnyCase{Hmm: &cs0})
			return
		}
		c.Count("model_level_checks", 1)
		reportDefects(c, lib, &cs0, rank(md, 0, r.idx))
		if md.Kind != kindPlain {
			c.Outcome(fmt.Sprintf("model%s:m=%d,final=%v,ties=%v,defects=%d", ks, m, md.Final != nil, len(md.tieGroups()) > 0, len(lib.defects)))
		}
		if !sm.ok || lib.fatal() {
			return
		}
		snap := lib.snapshot()
		nc, used := usedClasses(md.Map)
		for _, tb := range tablesOf(nc, 2, used, b.emAlph, b.noDeadRows) {
			for _, sq := range seqs {
				cs := Case{Route: "generic", Family: "table", Elem: elem, Model: md, Table: tb, Seq: sq, Pad: pad}
				c.Guard("generic", rank(md, len(sq), r.idx), AnyCase{Hmm: &cs})
				runHmmCase(c, &cs, lib, sm, b.postN, r.idx)
			}
		}
		if lib.snapshot() != snap {
			c.Violate(hkey("generic.Hmm"+ks, md, "model", "mutated-by-query"), "model parameters changed by read-only queries: "+snap+" -> "+lib.snapshot(), rank(md, 0, r.idx), AnyCase{Hmm: &cs0})
		}
	})
}

// end-to-end sweeps: model x family parameters x sequence (all sequences, no symmetry)
func (r *runner) sweepE2E(route, family string, m int, b bounds, params func(nclass int, used []bool) [][][]float64, nsym int) {
	c := r.c
	seqs := seqsUpTo(b.nmax, nsym, false)
	mkModels(m, b, func(md Model) {
		r.idx++
		if !c.Mine(r.idx) {
			return
		}
		ks := kindSuffix(md.Kind)
		sm := semantics(md)
		if !sm.ok {
			c.Outcome("inadmissible:" + sm.why)
			if !sm.modelOnly {
				return
			}
		}
		c.Count(route+ks+"_"+family+"_models", 1)
		nc, used := usedClasses(md.Map)
		for ti, tb := range params(nc, used) {
			cs0 := Case{Route: route, Family: family, Elem: "float64", Model: md, Table: tb}
			lib, err := buildE2E(&cs0)
			if err != nil {
				c.Violate(hkey(route+".NewHmm"+ks+"["+family+"]", md, "construct", "error"), "admissible model rejected: "+err.Error()+structNote(md), rank(md, 0, r.idx), AnyCase{Hmm: &cs0})
				continue
			}
			if ti == 0 {
				c.Count("model_level_checks", 1)
			}
			reportDefects(c, lib, &cs0, rank(md, 0, r.idx))
			if !sm.ok || lib.fatal() {
				break
			}
			for _, sq := range seqs {
				cs := cs0
				cs.Seq = sq
				c.Guard(route, rank(md, len(sq), r.idx), AnyCase{Hmm: &cs})
				runHmmCase(c, &cs, lib, sm, b.postN, r.idx)
			}
		}
	})
}

func rank(md Model, n int, idx int64) int64 {
	z := 0
	for _, p := range md.Pi {
		if p == 0 {
			z++
		}
	}
	for _, r := range md.Tr {
		for _, p := range r {
			if p == 0 {
				z++
			}
		}
	}
	nr := 0
	if md.Start != nil {
		nr++
	}
	if md.Final != nil {
		nr++
	}
	return int64(md.M)<<56 | int64(n)<<50 | int64(nr)<<46 | int64(z)<<40 | (idx & (1<<40 - 1))
}

// hkey: structural signature  routine | model class | quantity | what differs.
// Model class: number of states, which restrictions are set, whether pi/Tr contain zero
// probabilities. The end-to-end wrappers delegate to generic.Hmm, so for them only the
// routine is the signature (one defect = a handful of keys); the witness shows the model.
func hkey(routine string, md Model, quantity, what string) string {
	z := "n"
	for _, p := range md.Pi {
		if p == 0 {
			z = "y"
		}
	}
	for _, r := range md.Tr {
		for _, p := range r {
			if p == 0 {
				z = "y"
			}
		}
	}
	restr := "none"
	switch {
	case md.Start != nil && md.Final != nil:
		restr = "start+final"
	case md.Start != nil:
		restr = "start"
	case md.Final != nil:
		restr = "final"
	}
	if strings.HasPrefix(routine, "generic.") {
		ms := "m=1"
		if md.M > 1 {
			ms = "m>=2"
		}
		return fmt.Sprintf("%s|%s,restr=%s,zeros=%s|%s|%s", routine, ms, restr, z, quantity, what)
	}
	return fmt.Sprintf("%s|any|%s|%s", routine, quantity, what)
}

/* -------------------------------------------------------------------------- */

func run(c *vf.Ctx) {
	r := &runner{c: c}
	selfTest(c)
	thorough := c.Thorough()

	// constructors on un-normalisable input
	if c.Shard == 0 {
		runCtrCases(c)
	}

	// ---- generic Hmm through the harness table record
	r.sweepGeneric(1, bounds{piAlph: quarter, trAlph: quarter, emAlph: []float64{1, 0.5, 0.25, 0}, nmax: 4, postN: 3}, "float64", 0)
	if thorough {
		r.sweepGeneric(2, bounds{piAlph: quarter, trAlph: quarter, emAlph: []float64{1, 0.5, 0.25, 0}, nmax: 5, postN: 3}, "float64", 0)
		r.sweepGeneric(3, bounds{piAlph: half, trAlph: half, emAlph: []float64{1, 0.5}, nmax: 3, postN: 2}, "float64", 1)
		r.sweepGeneric(3, bounds{piAlph: half, trAlph: half, emAlph: []float64{1, 0}, nmax: 3, postN: 1}, "float64", 0)
		r.sweepGeneric(3, bounds{piAlph: half, trAlph: binary, emAlph: []float64{1, 0}, nmax: 4, postN: 2}, "float64", 0)
		r.sweepGeneric(3, bounds{piAlph: binary, trAlph: binary, emAlph: []float64{1, 0}, nmin: 3, nmax: 3, postN: 3}, "float64", 0)
		r.sweepGeneric(2, bounds{piAlph: half, trAlph: half, emAlph: []float64{1, 0.5, 0}, nmax: 3, postN: 3}, "real64", 1)
	} else {
		r.sweepGeneric(2, bounds{piAlph: quarter, trAlph: quarter, emAlph: []float64{1, 0.5, 0}, nmax: 3, postN: 3}, "float64", 0)
		r.sweepGeneric(2, bounds{piAlph: half, trAlph: half, emAlph: []float64{1, 0.25, 0}, nmax: 4, postN: 0}, "float64", 1)
		r.sweepGeneric(3, bounds{piAlph: half, trAlph: binary, emAlph: []float64{1, 0}, nmax: 3, postN: 2}, "float64", 0)
		r.sweepGeneric(2, bounds{piAlph: binary, trAlph: half, emAlph: []float64{1, 0.5, 0}, nmax: 3, postN: 2}, "real64", 1)
	}

	// ---- longer sequences for Posterior(state-set sequence) (fifth seeding round, seed C15-10):
	// the restricted forward recursion alternates two buffers, so what step k leaves behind is
	// read again at step k+2 and, through it, at k+3; up to length 3 no such read exists. All
	// sequences of non-empty state subsets at lengths 4 and 5 (thorough 6, and Real64 with derivatives at length 4)
	r.sweepGeneric(2, bounds{piAlph: half, trAlph: half, emAlph: []float64{1, 0.5}, nmin: 4, nmax: 5, postN: 5}, "float64", 0)
	if thorough {
		r.sweepGeneric(2, bounds{piAlph: half, trAlph: half, emAlph: []float64{1, 0.5}, nmin: 6, nmax: 6, postN: 6}, "float64", 0)
		r.sweepGeneric(2, bounds{piAlph: binary, trAlph: half, emAlph: []float64{1, 0.5}, nmin: 4, nmax: 4, postN: 4}, "real64", 1)
	}

	// ---- constrained and hierarchical HMMs (structured transition matrices), generic route
	onlyC, onlyH := []string{kindConstrained}, []string{kindHierarchical}
	lowQuarter := []float64{0, 0.25, 0.5} // m=3: rows (1/2,1/2,0) and (1/2,1/4,1/4) in every order
	// m=3: rows (1/2,1/4,1/4) in every order. Only with unequal non-zero entries does the
	// tied normalisation of a final-restricted matrix differ from row-wise renormalisation
	// (over {0,1/2} the two coincide on every admissible model)
	fullSupport := []float64{0.25, 0.5}
	if thorough {
		r.sweepGeneric(1, bounds{piAlph: quarter, trAlph: quarter, emAlph: []float64{1, 0.5, 0}, nmax: 4, postN: 3, kinds: structured, allRestr: true}, "float64", 0)
		r.sweepGeneric(2, bounds{piAlph: quarter, trAlph: quarter, emAlph: []float64{1, 0.5, 0}, nmax: 4, postN: 2, kinds: structured, consHow: "partitions", allRestr: true}, "float64", 0)
		r.sweepGeneric(2, bounds{piAlph: half, trAlph: half, emAlph: []float64{1, 0.5}, nmax: 5, postN: 3, kinds: structured, consHow: "partitions", allRestr: true, idConstMaps: true}, "real64", 1)
		r.sweepGeneric(3, bounds{piAlph: half, trAlph: half, emAlph: []float64{1, 0}, nmax: 4, postN: 0, kinds: structured, allRestr: true, idConstMaps: true, noDeadRows: true}, "float64", 0)
		r.sweepGeneric(3, bounds{piList: [][]float64{{0.5, 0.25, 0.25}, {0, 0.5, 0.5}}, trAlph: fullSupport, emAlph: []float64{1, 0}, nmax: 4, postN: 2, kinds: onlyC, allRestr: true, idMap: true, noDeadRows: true}, "float64", 1)
		r.sweepGeneric(3, bounds{piList: [][]float64{{0.5, 0.25, 0.25}, {0, 0.5, 0.5}}, trAlph: lowQuarter, emAlph: []float64{1, 0}, nmax: 4, postN: 2, kinds: onlyH, allRestr: true, idMap: true, noDeadRows: true}, "float64", 1)
	} else {
		r.sweepGeneric(1, bounds{piAlph: quarter, trAlph: quarter, emAlph: []float64{1, 0.5, 0}, nmax: 4, postN: 3, kinds: structured, allRestr: true}, "float64", 0)
		r.sweepGeneric(2, bounds{piAlph: half, trAlph: quarter, emAlph: []float64{1, 0}, nmax: 4, postN: 2, kinds: structured, consHow: "partitions", allRestr: true, idConstMaps: true}, "float64", 0)
		r.sweepGeneric(3, bounds{piList: [][]float64{{0.5, 0.25, 0.25}}, trAlph: []float64{0, 0.5}, emAlph: []float64{1, 0}, nmax: 3, postN: 0, kinds: onlyC, allRestr: true, restrUnion: true, idMap: true, noDeadRows: true}, "float64", 1)
		r.sweepGeneric(3, bounds{piList: [][]float64{{0.5, 0.25, 0.25}}, trAlph: fullSupport, emAlph: []float64{1, 0}, nmax: 4, postN: 0, kinds: onlyC, allRestr: true, noStart: true, idMap: true, noDeadRows: true}, "float64", 0)
		r.sweepGeneric(3, bounds{piList: [][]float64{{0.5, 0.25, 0.25}}, trAlph: lowQuarter, emAlph: []float64{1, 0}, nmax: 4, postN: 0, kinds: onlyH, properTrees: true, allRestr: true, restrUnion: true, idMap: true, noDeadRows: true}, "float64", 1)
	}

	// ---- end to end: vectorDistribution.Hmm / matrixDistribution.Hmm and classifiers
	catTables := func(alph []float64) func(int, []bool) [][][]float64 {
		return func(nc int, used []bool) [][][]float64 { return tables(nc, 2, used, alph) }
	}
	// Poisson rates / normal (mu,sigma) per class from a small parameter alphabet
	famParams := func(opts [][]float64) func(int, []bool) [][][]float64 {
		return func(nc int, used []bool) [][][]float64 {
			out := [][][]float64{{}}
			for cl := 0; cl < nc; cl++ {
				var nx [][][]float64
				for _, t := range out {
					for oi, o := range opts {
						if !used[cl] && oi > 0 {
							break
						}
						nx = append(nx, append(append([][]float64{}, t...), o))
					}
				}
				out = nx
			}
			return out
		}
	}
	poisson := famParams([][]float64{{1}, {0.5}, {2}})
	normal := famParams([][]float64{{0, 1}, {1, 0.5}, {-1, 2}})
	if thorough {
		r.sweepE2E("vector", "categorical", 1, bounds{piAlph: quarter, trAlph: quarter, emAlph: []float64{1, 0.5, 0.25, 0}, nmax: 4, postN: 3}, catTables([]float64{1, 0.5, 0.25, 0}), 2)
		r.sweepE2E("vector", "categorical", 2, bounds{piAlph: quarter, trAlph: quarter, emAlph: nil, nmax: 4, postN: 3}, catTables([]float64{1, 0.5, 0}), 2)
		r.sweepE2E("vector", "categorical", 3, bounds{piAlph: half, trAlph: binary, nmax: 3, postN: 2}, catTables([]float64{1, 0}), 2)
		r.sweepE2E("vector", "poisson", 2, bounds{piAlph: quarter, trAlph: quarter, nmax: 4, postN: 3}, poisson, 3)
		r.sweepE2E("vector", "normal", 2, bounds{piAlph: quarter, trAlph: quarter, nmax: 3, postN: 3}, normal, 3)
		r.sweepE2E("matrix", "iid-categorical", 2, bounds{piAlph: quarter, trAlph: quarter, nmax: 2, postN: 2}, catTables([]float64{1, 0.5, 0}), 4)
		r.sweepE2E("matrix", "iid-categorical", 3, bounds{piAlph: binary, trAlph: binary, nmax: 2, postN: 2}, catTables([]float64{1, 0}), 4)
	} else {
		r.sweepE2E("vector", "categorical", 1, bounds{piAlph: quarter, trAlph: quarter, nmax: 3, postN: 3}, catTables([]float64{1, 0.5, 0}), 2)
		r.sweepE2E("vector", "categorical", 2, bounds{piAlph: half, trAlph: quarter, nmax: 3, postN: 3}, catTables([]float64{1, 0.5, 0}), 2)
		r.sweepE2E("vector", "poisson", 2, bounds{piAlph: half, trAlph: half, nmax: 3, postN: 2}, poisson, 3)
		r.sweepE2E("vector", "normal", 2, bounds{piAlph: half, trAlph: half, nmax: 3, postN: 2}, normal, 2)
		r.sweepE2E("matrix", "iid-categorical", 2, bounds{piAlph: half, trAlph: half, nmax: 2, postN: 2}, catTables([]float64{1, 0.5, 0}), 4)
	}

	// ---- end to end, constrained and hierarchical: vectorDistribution / matrixDistribution
	// NewConstrainedHmm and NewHierarchicalHmm
	fixedTables := func(rows [][]float64) func(int, []bool) [][][]float64 {
		// table t: class c gets row (c+t) mod len(rows)
		return func(nc int, used []bool) [][][]float64 {
			var out [][][]float64
			for t := range rows {
				tb := make([][]float64, nc)
				for cl := range tb {
					tb[cl] = rows[(cl+t)%len(rows)]
				}
				out = append(out, tb)
			}
			return out
		}
	}
	if thorough {
		r.sweepE2E("vector", "categorical", 2, bounds{piAlph: half, trAlph: quarter, nmax: 4, postN: 2, kinds: structured, consHow: "partitions", allRestr: true, idConstMaps: true}, catTables([]float64{1, 0.5, 0}), 2)
		r.sweepE2E("vector", "categorical", 3, bounds{piList: [][]float64{{0.5, 0.25, 0.25}}, trAlph: []float64{0, 0.5}, nmax: 4, postN: 0, kinds: onlyC, allRestr: true, idMap: true}, fixedTables([][]float64{{1, 0.5}, {0.5, 1}, {1, 0}, {0, 1}}), 2)
		r.sweepE2E("vector", "categorical", 3, bounds{piList: [][]float64{{0.5, 0.25, 0.25}}, trAlph: fullSupport, nmax: 4, postN: 0, kinds: onlyC, allRestr: true, idMap: true}, fixedTables([][]float64{{1, 0.5}, {0.5, 1}, {1, 0}, {0, 1}}), 2)
		r.sweepE2E("vector", "categorical", 3, bounds{piList: [][]float64{{0.5, 0.25, 0.25}}, trAlph: lowQuarter, nmax: 4, postN: 0, kinds: onlyH, allRestr: true, idMap: true}, fixedTables([][]float64{{1, 0.5}, {0.5, 1}, {1, 0}, {0, 1}}), 2)
		r.sweepE2E("vector", "poisson", 2, bounds{piAlph: half, trAlph: half, nmax: 4, postN: 0, kinds: structured, allRestr: true, idMap: true}, poisson, 3)
		r.sweepE2E("matrix", "iid-categorical", 2, bounds{piAlph: half, trAlph: half, nmax: 3, postN: 2, kinds: structured, consHow: "partitions", allRestr: true, idMap: true}, fixedTables([][]float64{{1, 0.5}, {0.5, 1}, {1, 0}, {0, 1}}), 4)
		r.sweepE2E("matrix", "iid-categorical", 3, bounds{piList: [][]float64{{0.5, 0.25, 0.25}}, trAlph: fullSupport, nmax: 2, postN: 0, kinds: onlyC, allRestr: true, idMap: true}, fixedTables([][]float64{{1, 0.5}, {0, 1}}), 4)
		r.sweepE2E("matrix", "iid-categorical", 3, bounds{piList: [][]float64{{0.5, 0.25, 0.25}}, trAlph: lowQuarter, nmax: 2, postN: 0, kinds: onlyH, properTrees: true, allRestr: true, idMap: true}, fixedTables([][]float64{{1, 0.5}, {0, 1}}), 4)
	} else {
		r.sweepE2E("vector", "categorical", 2, bounds{piAlph: half, trAlph: half, nmax: 4, postN: 2, kinds: structured, allRestr: true, idConstMaps: true}, catTables([]float64{1, 0}), 2)
		r.sweepE2E("matrix", "iid-categorical", 2, bounds{piList: [][]float64{{0.5, 0.5}}, trAlph: half, nmax: 3, postN: 0, kinds: structured, allRestr: true, restrUnion: true, idMap: true}, fixedTables([][]float64{{1, 0.5}, {0.5, 1}, {1, 0}, {0, 1}}), 4)
		// m=3: only here a tied last transition differs from a row-wise renormalised one
		pi3 := [][]float64{{0.5, 0.25, 0.25}}
		two := fixedTables([][]float64{{1, 0.5}, {0, 1}})
		r.sweepE2E("vector", "categorical", 3, bounds{piList: pi3, trAlph: fullSupport, nmax: 3, postN: 0, kinds: onlyC, allRestr: true, noStart: true, idMap: true}, two, 2)
		r.sweepE2E("vector", "categorical", 3, bounds{piList: pi3, trAlph: lowQuarter, nmax: 3, postN: 0, kinds: onlyH, properTrees: true, allRestr: true, restrUnion: true, idMap: true}, two, 2)
		r.sweepE2E("matrix", "iid-categorical", 3, bounds{piList: pi3, trAlph: fullSupport, nmax: 2, postN: 0, kinds: onlyC, allRestr: true, noStart: true, idMap: true}, two, 4)
		r.sweepE2E("matrix", "iid-categorical", 3, bounds{piList: pi3, trAlph: lowQuarter, nmax: 2, postN: 0, kinds: onlyH, properTrees: true, allRestr: true, restrUnion: true, idMap: true}, two, 4)
	}

	// ---- data sets of 1-2 sequences: E-step statistics of one Baum-Welch iteration
	if thorough {
		r.sweepBW(1, bounds{piAlph: half, trAlph: half, emAlph: []float64{1, 0.5, 0}, nmax: 3}, 2)
		r.sweepBW(2, bounds{piAlph: quarter, trAlph: quarter, emAlph: []float64{1, 0.5, 0}, nmax: 4}, 2)
		r.sweepBW(3, bounds{piAlph: half, trAlph: binary, emAlph: []float64{1, 0}, nmax: 3}, 1)
	} else {
		r.sweepBW(1, bounds{piAlph: half, trAlph: half, emAlph: []float64{1, 0.5, 0}, nmax: 3}, 2)
		r.sweepBW(2, bounds{piAlph: half, trAlph: half, emAlph: []float64{1, 0.5, 0}, nmax: 3}, 2)
	}

	// ---- mixtures
	runMixtures(c, thorough)
}

/* -------------------------------------------------------------------------- */

func replay(c *vf.Ctx, raw json.RawMessage) {
	var ac AnyCase
	if err := json.Unmarshal(raw, &ac); err != nil {
		c.HarnessError(err.Error())
		return
	}
	switch {
	case ac.Hmm != nil:
		cs := ac.Hmm
		sm := semantics(cs.Model)
		if !sm.ok && !sm.modelOnly {
			return
		}
		ks := kindSuffix(cs.Model.Kind)
		var lib *libHmm
		var err error
		if cs.Route == "generic" {
			lib, err = buildGeneric(cs.Model, cs.Elem)
		} else {
			if cs.Table == nil {
				// model-level artefact of an end-to-end route: any emission parameters do
				nc, _ := usedClasses(cs.Model.Map)
				for i := 0; i < nc; i++ {
					switch cs.Family {
					case "poisson":
						cs.Table = append(cs.Table, []float64{1})
					case "normal":
						cs.Table = append(cs.Table, []float64{0, 1})
					default:
						cs.Table = append(cs.Table, []float64{0.5, 0.5})
					}
				}
			}
			lib, err = buildE2E(cs)
		}
		if err != nil {
			routine := "generic.NewHmm" + ks
			if cs.Route != "generic" {
				routine = cs.Route + ".NewHmm" + ks + "[" + cs.Family + "]"
			}
			c.Violate(hkey(routine, cs.Model, "construct", "error"), "admissible model rejected: "+err.Error(), 0, ac)
			return
		}
		if cs.Seq == nil {
			// model-level artefact: the observations made while configuring, then (generic
			// route) mutation by queries: re-run every table/sequence of the quick bound
			reportDefects(c, lib, cs, 0)
			if !sm.ok || lib.fatal() || cs.Route != "generic" {
				return
			}
			snap := lib.snapshot()
			nc, used := usedClasses(cs.Model.Map)
			for _, tb := range tables(nc, 2, used, []float64{1, 0.5, 0}) {
				for _, sq := range seqsUpTo(3, 2, true) {
					c2 := *cs
					c2.Table, c2.Seq = tb, sq
					runHmmCase(c, &c2, lib, sm, 3, 0)
				}
			}
			if lib.snapshot() != snap {
				c.Violate(hkey("generic.Hmm"+ks, cs.Model, "model", "mutated-by-query"), "model parameters changed by read-only queries", 0, ac)
			}
			return
		}
		if !sm.ok || lib.fatal() {
			return
		}
		runHmmCase(c, cs, lib, sm, 3, 0)
	case ac.Mix != nil:
		runMixCase(c, ac.Mix, 0)
	case ac.Ctr != nil:
		runCtrCase(c, ac.Ctr)
	case ac.BW != nil:
		runBWCase(c, ac.BW, 0)
	}
}

func main() {
	vf.Main(vf.Spec{
		ID:    "C15",
		Level: "exploration",
		Rule: "exhaustive product: HMMs with m in {1,2,3} states, pi and every transition row from all stochastic vectors over a dyadic alphabet (zeros included), all m^m state->emission-class maps, start and final restriction each in {none,{0},{m-1},{0,1}}, all emission tables over a small alphabet (zero emissions included), all observation sequences up to the length bound (generic route: one representative per symbol relabelling), all sequences of non-empty state subsets for Posterior (up to length 3 in the main sweeps, lengths 4 and 5 - thorough 6 - in dedicated m=2 sweeps); mixtures: all weight vectors, component likelihood tables and component subsets. " +
			"Structured transition matrices: constrained HMMs (no constraint and every single equality constraint between two cells of the matrix; for m=2 every partition of the four cells into tie groups) and hierarchical HMMs (every tree over contiguous state ranges without unary nodes), built through generic.NewChmmTransitionMatrix / NewHhmmTransitionMatrix + NewHmm and end to end through vectorDistribution / matrixDistribution NewConstrainedHmm / NewHierarchicalHmm; their matrices range over ALL stochastic matrices of the row alphabet that satisfy the ties (row alphabets: dyadic quarters for m<=2; for m=3 {0,1/2}, {0,1/2,1}, {0,1/4,1/2} and the full-support rows over {1/4,1/2} - only with unequal non-zero entries does a tied last transition differ from a row-wise renormalised one), start and final restriction each over none and every non-empty subset of the states (full product for m<=2 and in the thorough tier; m=3 quick: (any start, no final), (no start, any final), (start = final), on the full-support lattice no start restriction), sequences of length 1..4 (end-to-end routes 1..3, matrix route m=3 1..2), identity state map (m<=2 also the constant map). On every model the configuration calls are observed too (model_level_checks): base transition matrix and pi read back after construction equal the supplied ones; SetStartStates/SetFinalStates leave the base transition matrix (public field and GetParameters) bitwise unchanged, SetFinalStates leaves pi unchanged; the last-transition matrix has no NaN, no mass on non-final states and unit row sums. " +
			"Every case runs the real library and is compared with a brute-force sum over all m^n hidden paths. A case is counted non-trivial when the data has positive probability and at least two hidden paths have positive probability (so sums/maxima really range over several paths); cases are distinct by construction of the product",
		Assume: []string{
			"model semantics as defined by the library's documented construction: pi restricted to the start states and renormalised; the LAST transition (only) uses the transition matrix restricted to the final-state columns with rows renormalised; models where the start restriction removes all mass of pi, or where a row has no mass on the final states (the library then substitutes a self-loop), are skipped as inadmissible and counted",
			"the reference is computed from the parameters the CALLER supplied (pi, transition matrix, constraints / tree, start and final sets) and never from values read back from the constructed or configured object; the readings of the model-level checks are assertions on the object only",
			"constrained and hierarchical HMMs are supplied normalised and tie-consistent (then the supplied matrix is the fixed point of the library's normalisation, i.e. the model's matrix); their last transition is the library's definition of Normalize for these matrix types - the maximiser of sum xi log theta over tie-consistent matrices with unit row sums - applied to the supplied matrix with the non-final columns set to zero, solved by independent code (iterative scaling, KKT residual <= 1e-13). Models in which a tie group has mass on final AND non-final columns (tie and restriction contradict each other) have no defined last transition: only the model-level checks run on them; models whose tied restriction cannot be normalised are skipped; both are counted as inadmissible",
			"constrained HMMs: tolerance 1e-6 instead of 1e-10, because the library defines their normalisation through a Newton iteration that stops at a residual of 1e-8",
			"observations with zero total probability: only LogPdf=-Inf is demanded; PosteriorMarginals may fail with an error, Viterbi may return any path",
			"Viterbi: any maximiser is accepted",
			"state-set sequences are given as duplicate-free ascending lists",
			"tolerance 1e-10 (absolute on probabilities, relative-absolute on log values); exact zeros must be reported as -Inf",
		},
		Run:    run,
		Replay: replay,
	})
}

var _ = math.Inf
