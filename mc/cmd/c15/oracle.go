package main

// Independent reference semantics. Nothing here calls the library.
//
// Definition (taken from how the library DEFINES its model, hmm.go normalizePi /
// normalizeTf, then re-implemented as plain path sums):
//   pi'  = pi with non-start states set to 0, divided by its sum      (start restriction)
//   Tr'  = Tr with every row divided by its sum
//   Tf'  = Tr with non-final COLUMNS set to 0, every row divided by its sum; used for
//          the LAST transition only (position n-2 -> n-1)               (final restriction)
//   P(y, x) = pi'(y0) e(y0,x0) * prod_{k=1..n-1} T_k(y_{k-1},y_k) e(y_k,x_k),
//          T_k = Tf' if k = n-1 else Tr';   e(i,x) = emission of class StateMap[i]
// Everything else (likelihood, marginals, alpha/beta, set posteriors, Viterbi optimum)
// is a sum / max over the explicit list of all m^n paths.
// Constrained and hierarchical models (structure.go): the matrix is supplied normalised
// and tie-consistent, so Tr' = Tr; Tf' = the tied normalisation (the library's definition
// of Normalize for these matrix types, solved independently) of Tr with the non-final
// columns set to 0.  Every number comes from the parameters the CALLER supplied; nothing
// is read back from the configured object.

import (
	"fmt"
	"math"

	"verif/mc/vf"
)

type sem struct {
	m   int
	pi  []float64
	tr  [][]float64
	tf  [][]float64
	ok  bool
	why string
	// modelOnly: no reference for the last transition exists (the final-state restriction
	// contradicts a tie of the structured matrix), so no path enumeration is possible; the
	// model is still built and configured and the model-level checks run.
	modelOnly bool
}

func inSet(s []int, i int) bool {
	for _, v := range s {
		if v == i {
			return true
		}
	}
	return false
}

func semantics(md Model) *sem {
	m := md.M
	s := &sem{m: m, ok: true}
	groups := md.tieGroups()
	if md.Kind != kindPlain {
		if md.Kind == kindHierarchical && md.Tree == nil {
			s.ok, s.why = false, "hierarchical-model-without-tree"
			return s
		}
		if !groupsValid(m, groups) {
			s.ok, s.why = false, "invalid-tie-structure"
			return s
		}
		if !tieConsistent(md.Tr, groups) {
			// the enumerator only emits matrices that satisfy their ties (then the supplied
			// matrix IS the normalised one); anything else has no caller-side reference
			s.ok, s.why = false, "supplied-matrix-violates-its-ties"
			return s
		}
	}
	s.pi = make([]float64, m)
	sum := 0.0
	for i := 0; i < m; i++ {
		if md.Start == nil || inSet(md.Start, i) {
			s.pi[i] = md.Pi[i]
		}
		sum += s.pi[i]
	}
	if sum == 0 {
		s.ok, s.why = false, "start-restriction-removes-all-mass"
		return s
	}
	for i := range s.pi {
		s.pi[i] /= sum
	}
	s.tr = make([][]float64, m)
	s.tf = make([][]float64, m)
	for i := 0; i < m; i++ {
		s.tr[i] = make([]float64, m)
		s.tf[i] = make([]float64, m)
		rs, fs := 0.0, 0.0
		for j := 0; j < m; j++ {
			rs += md.Tr[i][j]
			if md.Final == nil || inSet(md.Final, j) {
				fs += md.Tr[i][j]
			}
		}
		if rs == 0 {
			s.ok, s.why = false, "zero-transition-row"
			return s
		}
		if fs == 0 {
			s.ok, s.why = false, "row-without-mass-on-final-states"
			return s
		}
		for j := 0; j < m; j++ {
			s.tr[i][j] = md.Tr[i][j] / rs
			if md.Final == nil || inSet(md.Final, j) {
				s.tf[i][j] = md.Tr[i][j] / fs
			}
		}
	}
	if md.Kind != kindPlain {
		// structured matrices are supplied normalised (rows sum to one, ties hold): the
		// reference for all but the last transition is the supplied matrix itself
		for i := 0; i < m; i++ {
			rs := 0.0
			for j := 0; j < m; j++ {
				rs += md.Tr[i][j]
			}
			if rs != 1 {
				s.ok, s.why = false, "structured-matrix-not-supplied-normalised"
				return s
			}
		}
		if md.Final != nil && len(groups) > 0 {
			// a tie group with mass both on final and on non-final columns: "equal" and
			// "zero outside the final states" contradict each other
			for _, g := range groups {
				fin, non := false, false
				for _, c := range g {
					if md.Tr[c[0]][c[1]] == 0 {
						continue
					}
					if inSet(md.Final, c[1]) {
						fin = true
					} else {
						non = true
					}
				}
				if fin && non {
					s.ok, s.why, s.modelOnly = false, "tie-group-straddles-final-state-boundary", true
					return s
				}
			}
			xi := make([][]float64, m)
			for i := range xi {
				xi[i] = make([]float64, m)
				for j := range xi[i] {
					if inSet(md.Final, j) {
						xi[i][j] = md.Tr[i][j]
					}
				}
			}
			tf, ok := solveTied(xi, groups)
			if !ok {
				s.ok, s.why = false, "tied-final-restriction-not-normalisable"
				return s
			}
			s.tf = tf
		}
	}
	return s
}

/* emission families: textbook densities
 * -------------------------------------------------------------------------- */

// emission probability (density) of class parameters par at symbol x
func emit(family string, par []float64, x int) float64 {
	switch family {
	case "table", "categorical":
		return par[x]
	case "iid-categorical":
		// x encodes a row (a,b) of two binary observations
		return par[x>>1] * par[x&1]
	case "poisson":
		l := par[0]
		f := 1.0
		for i := 2; i <= x; i++ {
			f *= float64(i)
		}
		return math.Exp(-l) * math.Pow(l, float64(x)) / f
	case "normal":
		mu, sg := par[0], par[1]
		z := (float64(x) - mu) / sg
		return math.Exp(-0.5*z*z) / (sg * math.Sqrt(2*math.Pi))
	}
	panic("unknown family " + family)
}

// emission matrix e[k][i]: state i at position k
func emissions(cs *Case) [][]float64 {
	e := make([][]float64, len(cs.Seq))
	for k, x := range cs.Seq {
		e[k] = make([]float64, cs.Model.M)
		for i := 0; i < cs.Model.M; i++ {
			e[k][i] = emit(cs.Family, cs.Table[cs.Model.Map[i]], x)
		}
	}
	return e
}

/* path enumeration
 * -------------------------------------------------------------------------- */

var pathCache = map[[2]int][][]uint8{}

func pathsOf(m, n int) [][]uint8 {
	if p, ok := pathCache[[2]int{m, n}]; ok {
		return p
	}
	out := [][]uint8{{}}
	for i := 0; i < n; i++ {
		var nx [][]uint8
		for _, t := range out {
			for v := 0; v < m; v++ {
				nx = append(nx, append(append([]uint8{}, t...), uint8(v)))
			}
		}
		out = nx
	}
	pathCache[[2]int{m, n}] = out
	return out
}

type brute struct {
	n, m  int
	paths [][]uint8
	p     []float64 // joint probability of every path with the data
	total float64
	pmax  float64
	npos  int
	marg  [][]float64 // [k][i] unnormalised: sum over paths with y_k = i
	alpha [][]float64 // [k][i] P(x_0..k, y_k=i)
	beta  [][]float64 // [k][i] P(x_{k+1}..n-1 | y_k=i)
}

func (s *sem) trans(k, n int) [][]float64 {
	if k == n-1 {
		return s.tf
	}
	return s.tr
}

func bruteForce(s *sem, e [][]float64) *brute {
	n, m := len(e), s.m
	b := &brute{n: n, m: m, paths: pathsOf(m, n)}
	b.p = make([]float64, len(b.paths))
	b.marg = make([][]float64, n)
	b.alpha = make([][]float64, n)
	b.beta = make([][]float64, n)
	for k := 0; k < n; k++ {
		b.marg[k] = make([]float64, m)
		b.alpha[k] = make([]float64, m)
		b.beta[k] = make([]float64, m)
	}
	for pi, y := range b.paths {
		p := s.pi[y[0]] * e[0][y[0]]
		for k := 1; k < n; k++ {
			p *= s.trans(k, n)[y[k-1]][y[k]] * e[k][y[k]]
		}
		b.p[pi] = p
		b.total += p
		if p > b.pmax {
			b.pmax = p
		}
		if p > 0 {
			b.npos++
		}
		for k := 0; k < n; k++ {
			b.marg[k][y[k]] += p
		}
	}
	// alpha: sum over prefixes, beta: sum over suffixes (explicit enumeration again)
	for k := 0; k < n; k++ {
		for _, y := range pathsOf(m, k+1) {
			p := s.pi[y[0]] * e[0][y[0]]
			for l := 1; l <= k; l++ {
				p *= s.trans(l, n)[y[l-1]][y[l]] * e[l][y[l]]
			}
			b.alpha[k][y[k]] += p
		}
		for i := 0; i < m; i++ {
			for _, y := range pathsOf(m, n-1-k) {
				p := 1.0
				prev := uint8(i)
				for l := k + 1; l < n; l++ {
					yl := y[l-k-1]
					p *= s.trans(l, n)[prev][yl] * e[l][yl]
					prev = yl
				}
				b.beta[k][i] += p
			}
		}
	}
	return b
}

func (b *brute) pathProb(y []int) float64 {
	for pi, q := range b.paths {
		same := true
		for k := range q {
			if int(q[k]) != y[k] {
				same = false
				break
			}
		}
		if same {
			return b.p[pi]
		}
	}
	return math.NaN()
}

func (b *brute) setProb(sets [][]int) float64 {
	sum := 0.0
	for pi, y := range b.paths {
		ok := true
		for k := range y {
			if !inSet(sets[k], int(y[k])) {
				ok = false
				break
			}
		}
		if ok {
			sum += b.p[pi]
		}
	}
	return sum
}

/* comparison
 * -------------------------------------------------------------------------- */

const tol = 1e-10

// tolerance of a model: 1e-10, except for constrained HMMs, whose normalisation the library
// defines through a Newton iteration that stops at a residual of 1e-8 (constrainedHmm.go,
// computeLambda) - the reference cannot be demanded to agree more closely than that
func tolOf(md Model) float64 {
	if md.Kind == kindConstrained {
		return 1e-6
	}
	return tol
}

// logOK: library log-value against a reference probability
func logOK(lib, want float64) bool { return logOKt(lib, want, tol) }

func logOKt(lib, want, tol float64) bool {
	if want == 0 {
		return math.IsInf(lib, -1)
	}
	if math.IsNaN(lib) || math.IsInf(lib, 0) {
		return false
	}
	lw := math.Log(want)
	return math.Abs(lib-lw) <= tol*math.Max(1, math.Abs(lw))
}

func describe(lib, want float64) string {
	if want == 0 {
		return fmt.Sprintf("library log-value %v, reference probability 0 (log = -Inf)", lib)
	}
	return fmt.Sprintf("library log-value %.15g (prob %.12g), reference log %.15g (prob %.12g)", lib, math.Exp(lib), math.Log(want), want)
}

func what(lib float64) string {
	switch {
	case math.IsNaN(lib):
		return "nan"
	case math.IsInf(lib, 0):
		return "inf"
	}
	return "value"
}

// the reference must be internally consistent, otherwise the harness is broken
func selfTest(c *vf.Ctx) {
	md := Model{M: 3, Pi: []float64{0.5, 0.5, 0}, Tr: [][]float64{{0.5, 0.5, 0}, {0, 0.5, 0.5}, {0.5, 0, 0.5}}, Map: []int{0, 1, 1}, Start: []int{0, 1}, Final: []int{0, 1}}
	s := semantics(md)
	cs := &Case{Family: "table", Model: md, Table: [][]float64{{1, 0.5}, {0.25, 1}}, Seq: []int{0, 1, 1, 0}}
	b := bruteForce(s, emissions(cs))
	for k := 0; k < b.n; k++ {
		ab, mg := 0.0, 0.0
		for i := 0; i < b.m; i++ {
			ab += b.alpha[k][i] * b.beta[k][i]
			mg += b.marg[k][i]
			if math.Abs(b.alpha[k][i]*b.beta[k][i]-b.marg[k][i]) > 1e-15 {
				c.HarnessError("reference self-test: alpha*beta != marginal path sum")
			}
		}
		if math.Abs(ab-b.total) > 1e-15 || math.Abs(mg-b.total) > 1e-15 || b.total <= 0 {
			c.HarnessError("reference self-test: inconsistent totals")
		}
	}
	// final restriction: last state must be 0 or 1 on every positive path, Tf rows sum to one
	for pi, y := range b.paths {
		if b.p[pi] > 0 && y[len(y)-1] == 2 {
			c.HarnessError("reference self-test: path ends outside the final states")
		}
	}
}
