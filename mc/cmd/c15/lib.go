package main

// Adaptors around the real library and the per-case oracle comparison.

import (
	"fmt"
	"math"
	"strings"

	ad "github.com/pbenner/autodiff"
	st "github.com/pbenner/autodiff/statistics"
	"github.com/pbenner/autodiff/statistics/generic"
	md "github.com/pbenner/autodiff/statistics/matrixDistribution"
	sd "github.com/pbenner/autodiff/statistics/scalarDistribution"
	vc "github.com/pbenner/autodiff/statistics/vectorClassifier"
	vd "github.com/pbenner/autodiff/statistics/vectorDistribution"

	"verif/mc/vf"
)

/* harness data record for the generic Hmm: a table of emission log-probabilities
 * -------------------------------------------------------------------------- */

type tabRec struct {
	n  int
	lp [][]float64 // [class][position]
}

func (r tabRec) MapIndex(k int) int { return k }
func (r tabRec) GetN() int          { return r.n }
func (r tabRec) LogPdf(s ad.Scalar, c, k int) error {
	s.SetFloat64(r.lp[c][k])
	return nil
}

/* -------------------------------------------------------------------------- */

type libHmm struct {
	route string
	name  string // routine prefix for keys
	g     *generic.Hmm
	clone *generic.Hmm
	v     *vd.Hmm
	m     *md.Hmm
	tol   float64 // comparison tolerance of this model (tolOf)
	// what the configuration calls did to the object (configure)
	defects []cfgDefect
}

// cfgDefect: an observation made on the object itself while it was constructed and
// configured.  fatal: the object is not a model at all (NaN / unnormalised / unrestricted
// last transition), the case sweep is pointless.
type cfgDefect struct {
	quantity, what, msg string
	fatal               bool
}

func (l *libHmm) fatal() bool {
	for _, d := range l.defects {
		if d.fatal {
			return true
		}
	}
	return false
}

func kindSuffix(kind string) string {
	if kind == kindPlain {
		return ""
	}
	return "[" + kind + "]"
}

func newTransition(mo Model, tr ad.Matrix) (generic.TransitionMatrix, error) {
	switch mo.Kind {
	case kindConstrained:
		return generic.NewChmmTransitionMatrix(tr, libConstraints(mo.Constraints), false)
	case kindHierarchical:
		if mo.Tree == nil || !mo.Tree.lib().Check(mo.M) {
			return nil, fmt.Errorf("harness: invalid tree")
		}
		return generic.NewHhmmTransitionMatrix(tr, mo.Tree.lib(), false)
	}
	return generic.NewHmmTransitionMatrix(tr, false)
}

func readLogM(a ad.Matrix, m int) [][]float64 {
	out := make([][]float64, m)
	for i := range out {
		out[i] = make([]float64, m)
		for j := range out[i] {
			out[i][j] = a.At(i, j).GetFloat64()
		}
	}
	return out
}

func readLogV(a ad.Vector) []float64 {
	out := make([]float64, a.Dim())
	for i := range out {
		out[i] = a.At(i).GetFloat64()
	}
	return out
}

func sameBits(a, b []float64) bool {
	if len(a) != len(b) {
		return false
	}
	for i := range a {
		if math.Float64bits(a[i]) != math.Float64bits(b[i]) {
			return false
		}
	}
	return true
}

func sameBitsM(a, b [][]float64) bool {
	if len(a) != len(b) {
		return false
	}
	for i := range a {
		if !sameBits(a[i], b[i]) {
			return false
		}
	}
	return true
}

func expM(a [][]float64) [][]float64 {
	out := make([][]float64, len(a))
	for i := range a {
		out[i] = make([]float64, len(a[i]))
		for j := range a[i] {
			out[i][j] = math.Exp(a[i][j])
		}
	}
	return out
}

// configure applies the caller's start / final restriction to a freshly constructed
// object and records what these calls did to it, observed through the public fields
// (Pi, Tr, Tf) and GetParameters:
//   - right after construction the base transition matrix and pi must be the supplied
//     ones (the harness supplies normalised parameters);
//   - SetStartStates / SetFinalStates must leave the base transition matrix untouched
//     (the final restriction concerns the LAST transition only), SetFinalStates must leave
//     pi untouched;
//   - the last-transition matrix must be a model: no NaN, no mass outside the final
//     states, unit row sums.
//
// None of these readings is used by the reference; they are assertions on the object.
func (l *libHmm) configure(mo Model) error {
	g, m := l.g, mo.M
	add := func(fatal bool, quantity, what, format string, a ...interface{}) {
		for _, d := range l.defects {
			if d.quantity == quantity && d.what == what {
				return
			}
		}
		l.defects = append(l.defects, cfgDefect{quantity, what, fmt.Sprintf(format, a...), fatal})
	}
	tr0 := readLogM(g.Tr, m)
	pi0 := readLogV(g.Pi)
	par0 := readLogV(g.GetParameters())
	for i := 0; i < m; i++ {
		if p := math.Exp(pi0[i]); math.IsNaN(p) {
			add(true, "construct", "pi-nan", "pi read back after construction %v, supplied %v", expM([][]float64{pi0})[0], mo.Pi)
		} else if math.Abs(p-mo.Pi[i]) > l.tol || (mo.Pi[i] == 0 && p != 0) {
			add(false, "construct", "pi-differs-from-supplied", "pi read back after construction %v, supplied (normalised) %v", expM([][]float64{pi0})[0], mo.Pi)
		}
		for j := 0; j < m; j++ {
			if p := math.Exp(tr0[i][j]); math.IsNaN(p) {
				add(true, "construct", "transition-matrix-nan", "transition matrix read back after construction %v, supplied (normalised, ties hold) %v", expM(tr0), mo.Tr)
			} else if math.Abs(p-mo.Tr[i][j]) > l.tol || (mo.Tr[i][j] == 0 && p != 0) {
				add(false, "construct", "transition-matrix-differs-from-supplied", "transition matrix read back after construction %v, supplied (normalised, ties hold) %v", expM(tr0), mo.Tr)
			}
		}
	}
	if l.fatal() {
		return nil // not a model already; whatever the configuration calls do follows from it
	}
	if err := g.SetStartStates(mo.Start); err != nil {
		return err
	}
	tr1 := readLogM(g.Tr, m)
	pi1 := readLogV(g.Pi)
	if !sameBitsM(tr0, tr1) {
		add(false, "configure", "SetStartStates-changes-transition-matrix", "Tr before %v, after SetStartStates(%v) %v", expM(tr0), mo.Start, expM(tr1))
	}
	if err := g.SetFinalStates(mo.Final); err != nil {
		return err
	}
	tr2 := readLogM(g.Tr, m)
	pi2 := readLogV(g.Pi)
	par2 := readLogV(g.GetParameters())
	if !sameBitsM(tr1, tr2) {
		add(false, "configure", "SetFinalStates-changes-transition-matrix", "Tr before %v, after SetFinalStates(%v) %v", expM(tr1), mo.Final, expM(tr2))
	}
	if !sameBits(pi1, pi2) {
		add(false, "configure", "SetFinalStates-changes-pi", "Pi before %v, after SetFinalStates(%v) %v", pi1, mo.Final, pi2)
	}
	if len(par0) != m+m*m || len(par2) != m+m*m {
		add(false, "configure", "GetParameters-shape", "GetParameters has %d / %d entries for %d states", len(par0), len(par2), m)
	} else if !sameBits(par0[m:], par2[m:]) {
		add(false, "configure", "configuration-changes-transition-parameters", "transition part of GetParameters before %v, after SetStartStates(%v)/SetFinalStates(%v) %v", par0[m:], mo.Start, mo.Final, par2[m:])
	}
	// the last-transition matrix
	tf := readLogM(g.Tf, m)
	for i := 0; i < m; i++ {
		sum := 0.0
		for j := 0; j < m; j++ {
			p := math.Exp(tf[i][j])
			sum += p
			switch {
			case math.IsNaN(p):
				add(true, "final-transition", "nan", "Tf after SetFinalStates(%v): %v [Tr %v]", mo.Final, expM(tf), mo.Tr)
			case mo.Final != nil && !inSet(mo.Final, j) && p != 0:
				add(true, "final-transition", "mass-on-non-final-state", "Tf after SetFinalStates(%v): %v gives probability %.6g to a transition %d->%d into a non-final state [Tr %v]", mo.Final, expM(tf), p, i, j, mo.Tr)
			}
		}
		if !math.IsNaN(sum) && math.Abs(sum-1) > 1e-6 {
			add(true, "final-transition", "row-not-normalised", "Tf after SetFinalStates(%v): %v, row %d sums to %.12g [Tr %v]", mo.Final, expM(tf), i, sum, mo.Tr)
		}
	}
	return nil
}

func elemType(elem string) ad.ScalarType {
	if elem == "real64" {
		return ad.Real64Type
	}
	return ad.Float64Type
}

func mkPiTr(mo Model, t ad.ScalarType) (ad.Vector, ad.Matrix) {
	pi := ad.NullDenseVector(t, mo.M)
	tr := ad.NullDenseMatrix(t, mo.M, mo.M)
	for i := 0; i < mo.M; i++ {
		pi.At(i).SetFloat64(mo.Pi[i])
		for j := 0; j < mo.M; j++ {
			tr.At(i, j).SetFloat64(mo.Tr[i][j])
		}
	}
	return pi, tr
}

func guard(f func() error) (err error) {
	defer func() {
		if r := recover(); r != nil {
			err = fmt.Errorf("PANIC: %v", r)
		}
	}()
	return f()
}

func buildGeneric(mo Model, elem string) (*libHmm, error) {
	l := &libHmm{route: "generic", name: "generic.Hmm" + kindSuffix(mo.Kind), tol: tolOf(mo)}
	err := guard(func() error {
		pi, tr := mkPiTr(mo, elemType(elem))
		p, err := generic.NewHmmProbabilityVector(pi, false)
		if err != nil {
			return err
		}
		t, err := newTransition(mo, tr)
		if err != nil {
			return err
		}
		h, err := generic.NewHmm(p, t, mo.Map)
		if err != nil {
			return err
		}
		l.g = h
		if err := l.configure(mo); err != nil {
			return err
		}
		l.clone = h.Clone()
		return nil
	})
	return l, err
}

func scalarPdf(family string, par []float64) (st.ScalarPdf, error) {
	switch family {
	case "categorical", "iid-categorical":
		return sd.NewCategoricalDistribution(ad.NewDenseFloat64Vector(append([]float64{}, par...)))
	case "poisson":
		return sd.NewPoissonDistribution(ad.NewFloat64(par[0]))
	case "normal":
		return sd.NewNormalDistribution(ad.NewFloat64(par[0]), ad.NewFloat64(par[1]))
	}
	return nil, fmt.Errorf("harness: unknown family %s", family)
}

func buildE2E(cs *Case) (*libHmm, error) {
	mo := cs.Model
	l := &libHmm{route: cs.Route, tol: tolOf(mo)}
	err := guard(func() error {
		pi, tr := mkPiTr(mo, elemType(cs.Elem))
		switch cs.Route {
		case "vector":
			l.name = "vectorDistribution.Hmm" + kindSuffix(mo.Kind) + "[" + cs.Family + "]"
			ed := make([]st.ScalarPdf, len(cs.Table))
			for c := range ed {
				d, err := scalarPdf(cs.Family, cs.Table[c])
				if err != nil {
					return err
				}
				ed[c] = d
			}
			var h *vd.Hmm
			switch mo.Kind {
			case kindConstrained:
				x, err := vd.NewConstrainedHmm(pi, tr, mo.Map, ed, libConstraints(mo.Constraints))
				if err != nil {
					return err
				}
				h = &x.Hmm
			case kindHierarchical:
				if mo.Tree == nil {
					return fmt.Errorf("harness: hierarchical model without tree")
				}
				x, err := vd.NewHierarchicalHmm(pi, tr, mo.Map, ed, mo.Tree.lib())
				if err != nil {
					return err
				}
				h = &x.Hmm
			default:
				x, err := vd.NewHmm(pi, tr, mo.Map, ed)
				if err != nil {
					return err
				}
				h = x
			}
			l.v = h
			l.g = &h.Hmm
		case "matrix":
			l.name = "matrixDistribution.Hmm" + kindSuffix(mo.Kind) + "[" + cs.Family + "]"
			ed := make([]st.VectorPdf, len(cs.Table))
			for c := range ed {
				d, err := scalarPdf(cs.Family, cs.Table[c])
				if err != nil {
					return err
				}
				v, err := vd.NewScalarIid(d, 2)
				if err != nil {
					return err
				}
				ed[c] = v
			}
			var h *md.Hmm
			switch mo.Kind {
			case kindConstrained:
				x, err := md.NewConstrainedHmm(pi, tr, mo.Map, ed, libConstraints(mo.Constraints))
				if err != nil {
					return err
				}
				h = &x.Hmm
			case kindHierarchical:
				if mo.Tree == nil {
					return fmt.Errorf("harness: hierarchical model without tree")
				}
				x, err := md.NewHierarchicalHmm(pi, tr, mo.Map, ed, mo.Tree.lib())
				if err != nil {
					return err
				}
				h = &x.Hmm
			default:
				x, err := md.NewHmm(pi, tr, mo.Map, ed)
				if err != nil {
					return err
				}
				h = x
			}
			l.m = h
			l.g = &h.Hmm
		default:
			return fmt.Errorf("harness: unknown route %s", cs.Route)
		}
		// SetStartStates / SetFinalStates are promoted from the embedded generic.Hmm
		return l.configure(mo)
	})
	return l, err
}

// reportDefects turns the observations of configure into violations (one coarse key per
// kind of observation: they are properties of the object, not of a query)
func reportDefects(c *vf.Ctx, l *libHmm, cs *Case, rk int64) {
	mo := cs.Model
	for _, d := range l.defects {
		c0 := *cs
		c0.Seq = nil
		c.Violate(fmt.Sprintf("%s|model|%s|%s", l.name, d.quantity, d.what),
			fmt.Sprintf("%s [pi=%v tr=%v constraints=%v tree=%v map=%v start=%v final=%v]", d.msg, mo.Pi, mo.Tr, mo.Constraints, mo.Tree, mo.Map, mo.Start, mo.Final), rk, AnyCase{Hmm: &c0})
	}
}

func (l *libHmm) snapshot() string {
	var sb strings.Builder
	g := l.g
	for i := 0; i < g.M; i++ {
		fmt.Fprintf(&sb, "%v;", g.Pi.At(i).GetFloat64())
	}
	for i := 0; i < g.M; i++ {
		for j := 0; j < g.M; j++ {
			fmt.Fprintf(&sb, "%v,%v;", g.Tr.At(i, j).GetFloat64(), g.Tf.At(i, j).GetFloat64())
		}
	}
	fmt.Fprintf(&sb, "%v", g.StateMap)
	return sb.String()
}

/* queries; every one returns plain float64 data
 * -------------------------------------------------------------------------- */

type query struct {
	logPdf    func(h *generic.Hmm) (float64, error)
	fb        func() (ad.Matrix, ad.Matrix, error)
	f64fb     func(pad int) (ad.Matrix, ad.Matrix, error)
	marginals func() ([]ad.Vector, error)
	viterbi   func() ([]int, error)
	posterior func(sets [][]int) (float64, error)
	// wrappers (end to end only)
	classify     func() ([]int, error)
	classifyPost func(states []int) ([]float64, error)
}

func (l *libHmm) queries(cs *Case) query {
	n := len(cs.Seq)
	t := l.g.ScalarType()
	var q query
	switch l.route {
	case "generic":
		nc := len(cs.Table)
		rec := tabRec{n: n, lp: make([][]float64, nc)}
		for c := 0; c < nc; c++ {
			rec.lp[c] = make([]float64, n)
			for k, x := range cs.Seq {
				rec.lp[c][k] = math.Log(cs.Table[c][x])
			}
		}
		q.logPdf = func(h *generic.Hmm) (float64, error) {
			r := ad.NullScalar(t)
			err := h.LogPdf(r, rec)
			return r.GetFloat64(), err
		}
		q.fb = func() (ad.Matrix, ad.Matrix, error) { return l.g.ForwardBackward(rec) }
		q.f64fb = func(pad int) (ad.Matrix, ad.Matrix, error) {
			return generic.VerifFloat64ForwardBackward(l.g, rec, pad)
		}
		q.marginals = func() ([]ad.Vector, error) { return l.g.PosteriorMarginals(rec) }
		q.viterbi = func() ([]int, error) { return l.g.Viterbi(rec) }
		q.posterior = func(sets [][]int) (float64, error) {
			r := ad.NullScalar(t)
			err := l.g.Posterior(r, rec, sets)
			return r.GetFloat64(), err
		}
	case "vector":
		x := ad.NullDenseFloat64Vector(n)
		for k, s := range cs.Seq {
			x.At(k).SetFloat64(float64(s))
		}
		rec := vd.HmmDataRecord{Edist: l.v.Edist, X: x}
		q.logPdf = func(h *generic.Hmm) (float64, error) {
			r := ad.NullScalar(t)
			err := l.v.LogPdf(r, x)
			return r.GetFloat64(), err
		}
		q.fb = func() (ad.Matrix, ad.Matrix, error) { return l.v.ForwardBackward(rec) }
		q.f64fb = func(pad int) (ad.Matrix, ad.Matrix, error) {
			return generic.VerifFloat64ForwardBackward(l.g, rec, pad)
		}
		q.marginals = func() ([]ad.Vector, error) { return l.v.PosteriorMarginals(x) }
		q.viterbi = func() ([]int, error) { return l.v.Viterbi(x) }
		q.posterior = func(sets [][]int) (float64, error) {
			r := ad.NullScalar(t)
			err := l.v.Posterior(r, x, sets)
			return r.GetFloat64(), err
		}
		q.classify = func() ([]int, error) {
			r := ad.NullDenseFloat64Vector(n)
			if err := (vc.HmmClassifier{Hmm: l.v}).Eval(r, x); err != nil {
				return nil, err
			}
			p := make([]int, n)
			for k := range p {
				p[k] = int(r.At(k).GetFloat64())
				if float64(p[k]) != r.At(k).GetFloat64() {
					p[k] = -1
				}
			}
			return p, nil
		}
		q.classifyPost = func(states []int) ([]float64, error) {
			r := ad.NullDenseFloat64Vector(n)
			if err := (vc.HmmPosterior{Hmm: l.v, States: states}).Eval(r, x); err != nil {
				return nil, err
			}
			p := make([]float64, n)
			for k := range p {
				p[k] = r.At(k).GetFloat64()
			}
			return p, nil
		}
	case "matrix":
		x := ad.NullDenseFloat64Matrix(n, 2)
		for k, s := range cs.Seq {
			x.At(k, 0).SetFloat64(float64(s >> 1))
			x.At(k, 1).SetFloat64(float64(s & 1))
		}
		rec := md.HmmDataRecord{Edist: l.m.Edist, X: x}
		q.logPdf = func(h *generic.Hmm) (float64, error) {
			r := ad.NullScalar(t)
			err := l.m.LogPdf(r, x)
			return r.GetFloat64(), err
		}
		q.fb = func() (ad.Matrix, ad.Matrix, error) { return l.m.ForwardBackward(rec) }
		q.f64fb = func(pad int) (ad.Matrix, ad.Matrix, error) {
			return generic.VerifFloat64ForwardBackward(l.g, rec, pad)
		}
		q.marginals = func() ([]ad.Vector, error) { return l.m.PosteriorMarginals(x) }
		q.viterbi = func() ([]int, error) { return l.m.Viterbi(x) }
		q.posterior = func(sets [][]int) (float64, error) {
			r := ad.NullScalar(t)
			err := l.m.Posterior(r, x, sets)
			return r.GetFloat64(), err
		}
	}
	return q
}

/* the per-case check
 * -------------------------------------------------------------------------- */

var setSeqCache = map[[2]int][][][]int{}

func setSeqs(m, n int) [][][]int {
	if s, ok := setSeqCache[[2]int{m, n}]; ok {
		return s
	}
	ss := subsets(m)
	var out [][][]int
	for _, t := range tuples(n, len(ss)) {
		q := make([][]int, n)
		for k, v := range t {
			q[k] = ss[v]
		}
		out = append(out, q)
	}
	setSeqCache[[2]int{m, n}] = out
	return out
}

func runHmmCase(c *vf.Ctx, cs *Case, l *libHmm, sm *sem, postN int, idx int64) {
	mo := cs.Model
	n, m := len(cs.Seq), mo.M
	rk := rank(mo, n, idx)
	ac := AnyCase{Hmm: cs}
	viol := func(routine, quantity, wh, msg string) {
		c.Violate(hkey(l.name+"."+routine, mo, quantity, wh), fmt.Sprintf("%s: %s [pi=%v tr=%v map=%v start=%v final=%v emission=%v x=%v]", routine, msg, mo.Pi, mo.Tr, mo.Map, mo.Start, mo.Final, cs.Table, cs.Seq)+structNote(mo), rk, ac)
	}
	b := bruteForce(sm, emissions(cs))
	q := l.queries(cs)
	tol := l.tol
	logOK := func(lib, want float64) bool { return logOKt(lib, want, tol) }
	c.Eval(1)
	if b.total > 0 && b.npos >= 2 {
		c.Nontrivial(1)
	}

	// ---- log-likelihood
	var ll float64
	err := guard(func() (e error) { ll, e = q.logPdf(l.g); return })
	switch {
	case err != nil:
		viol("LogPdf", "loglik", errKind(err), err.Error())
	case !logOK(ll, b.total):
		viol("LogPdf", "loglik", what(ll), describe(ll, b.total))
	}
	if l.clone != nil && err == nil {
		var l2 float64
		e2 := guard(func() (e error) { l2, e = q.logPdf(l.clone); return })
		if e2 != nil {
			viol("Clone", "loglik", errKind(e2), e2.Error())
		} else if l2 != ll && !(math.IsNaN(l2) && math.IsNaN(ll)) {
			viol("Clone", "loglik", "differs-from-original", fmt.Sprintf("LogPdf of the clone %v, of the original %v", l2, ll))
		}
	}
	if b.total == 0 {
		c.Outcome("zero-mass")
		c.Count("cases_zero_mass", 1)
		// nothing else is demanded; the calls must still return (no panic)
		if e := guard(func() error { _, e := q.marginals(); _ = e; return nil }); e != nil {
			viol("PosteriorMarginals", "marginal", "panic-on-zero-mass", e.Error())
		}
		if e := guard(func() error { _, e := q.viterbi(); _ = e; return nil }); e != nil {
			viol("Viterbi", "viterbi", "panic-on-zero-mass", e.Error())
		}
		return
	}

	// ---- forward / backward tables, generic and float64-specialised
	var ga, gb, fa, fbm ad.Matrix
	errG := guard(func() (e error) { ga, gb, e = q.fb(); return })
	if errG != nil {
		viol("ForwardBackward", "alpha-beta", errKind(errG), errG.Error())
	} else {
		for k := 0; k < n; k++ {
			for i := 0; i < m; i++ {
				if v := ga.At(i, k).GetFloat64(); !logOK(v, b.alpha[k][i]) {
					viol("ForwardBackward", "alpha", what(v), fmt.Sprintf("alpha(state %d, pos %d): %s", i, k, describe(v, b.alpha[k][i])))
				}
				if v := gb.At(i, k).GetFloat64(); !logOK(v, b.beta[k][i]) {
					viol("ForwardBackward", "beta", what(v), fmt.Sprintf("beta(state %d, pos %d): %s", i, k, describe(v, b.beta[k][i])))
				}
			}
		}
	}
	errF := guard(func() (e error) { fa, fbm, e = q.f64fb(cs.Pad); return })
	if errF != nil {
		viol("float64ForwardBackward", "alpha-beta", errKind(errF), errF.Error())
	} else {
		for k := 0; k < n; k++ {
			for i := 0; i < m; i++ {
				if v := fa.At(i, k).GetFloat64(); !logOK(v, b.alpha[k][i]) {
					viol("float64ForwardBackward", "alpha", what(v), fmt.Sprintf("alpha(state %d, pos %d): %s", i, k, describe(v, b.alpha[k][i])))
				}
				if v := fbm.At(i, k).GetFloat64(); !logOK(v, b.beta[k][i]) {
					viol("float64ForwardBackward", "beta", what(v), fmt.Sprintf("beta(state %d, pos %d): %s", i, k, describe(v, b.beta[k][i])))
				}
				if errG == nil {
					// specialised vs generic, element-wise
					for _, pr := range [][2]float64{{fa.At(i, k).GetFloat64(), ga.At(i, k).GetFloat64()}, {fbm.At(i, k).GetFloat64(), gb.At(i, k).GetFloat64()}} {
						x, y := pr[0], pr[1]
						if !(x == y || math.Abs(x-y) <= tol*math.Max(1, math.Abs(y))) {
							viol("float64ForwardBackward", "f64-vs-generic", "differs", fmt.Sprintf("state %d pos %d: specialised %v, generic %v", i, k, x, y))
						}
					}
				}
			}
		}
	}

	// ---- posterior marginals
	var gm []ad.Vector
	errM := guard(func() (e error) { gm, e = q.marginals(); return })
	if errM != nil {
		viol("PosteriorMarginals", "marginal", errKind(errM), "data has positive probability but: "+errM.Error())
	} else if len(gm) != m {
		viol("PosteriorMarginals", "marginal", "shape", fmt.Sprintf("%d vectors for %d states", len(gm), m))
	} else {
		for k := 0; k < n; k++ {
			sum := 0.0
			for i := 0; i < m; i++ {
				v := gm[i].At(k).GetFloat64()
				want := b.marg[k][i] / b.total
				pv := math.Exp(v)
				sum += pv
				if math.IsNaN(v) || math.Abs(pv-want) > tol || (want == 0 && !math.IsInf(v, -1)) {
					viol("PosteriorMarginals", "marginal", what(v), fmt.Sprintf("P(state %d at pos %d | x) = %.12g, path enumeration gives %.12g", i, k, pv, want))
				}
			}
			if !(math.Abs(sum-1) <= tol) {
				viol("PosteriorMarginals", "marginal", "sum-not-one", fmt.Sprintf("marginals at position %d sum to %.15g", k, sum))
			}
		}
	}

	// ---- Viterbi
	checkPath := func(routine string, p []int, e error) {
		if e != nil {
			viol(routine, "viterbi", errKind(e), e.Error())
			return
		}
		if len(p) != n {
			viol(routine, "viterbi", "shape", fmt.Sprintf("path of length %d for %d observations", len(p), n))
			return
		}
		for _, s := range p {
			if s < 0 || s >= m {
				viol(routine, "viterbi", "state-out-of-range", fmt.Sprintf("path %v", p))
				return
			}
		}
		if pp := b.pathProb(p); !(pp >= b.pmax*(1-10*tol)) {
			w := "not-maximal"
			if pp == 0 {
				w = "zero-probability-path"
			}
			viol(routine, "viterbi", w, fmt.Sprintf("returned path %v has joint probability %.12g, the best path has %.12g", p, pp, b.pmax))
		}
	}
	{
		var p []int
		e := guard(func() (e error) { p, e = q.viterbi(); return })
		checkPath("Viterbi", p, e)
	}
	if q.classify != nil {
		var p []int
		e := guard(func() (e error) { p, e = q.classify(); return })
		checkPath("HmmClassifier.Eval", p, e)
	}
	if q.classifyPost != nil && errM == nil {
		for _, ss := range subsets(m) {
			var p []float64
			e := guard(func() (e error) { p, e = q.classifyPost(ss); return })
			if e != nil {
				viol("HmmPosterior.Eval", "marginal-of-set", errKind(e), e.Error())
				continue
			}
			for k := 0; k < n; k++ {
				want := 0.0
				for _, i := range ss {
					want += b.marg[k][i] / b.total
				}
				if !(math.Abs(p[k]-want) <= tol) {
					viol("HmmPosterior.Eval", "marginal-of-set", what(p[k]), fmt.Sprintf("P(state in %v at pos %d | x) = %.12g, path enumeration gives %.12g", ss, k, p[k], want))
				}
			}
		}
	}

	// ---- posterior of state-set sequences
	if n <= postN {
		for _, sets := range setSeqs(m, n) {
			var v float64
			e := guard(func() (e error) { v, e = q.posterior(sets); return })
			want := b.setProb(sets) / b.total
			c.Count("posterior_set_sequences", 1)
			if e != nil {
				viol("Posterior", "posterior-sets", errKind(e), fmt.Sprintf("sets %v: %v", sets, e))
			} else if !logOK(v, want) {
				viol("Posterior", "posterior-sets", what(v), fmt.Sprintf("sets %v: %s", sets, describe(v, want)))
			}
		}
	}
	if b.npos >= 2 {
		c.Outcome(fmt.Sprintf("ok:m=%d,n=%d,multi-path", m, n))
	} else {
		c.Outcome(fmt.Sprintf("ok:m=%d,n=%d,single-path", m, n))
	}
	if idx%997 == 1 && n >= 3 && b.npos >= 3 {
		c.Sample(cs)
	}
}

func errKind(e error) string {
	if strings.HasPrefix(e.Error(), "PANIC") {
		return "panic"
	}
	return "error"
}

func structNote(mo Model) string {
	switch mo.Kind {
	case kindConstrained:
		return fmt.Sprintf(" [constrained HMM, equality constraints %v]", mo.Constraints)
	case kindHierarchical:
		return fmt.Sprintf(" [hierarchical HMM, tree %v]", mo.Tree)
	}
	return ""
}
