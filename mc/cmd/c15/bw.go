package main

// Data sets of one or two sequences: the E-step of one Baum-Welch iteration, observed
// through the public estimator (vectorEstimator.HmmEstimator, maxSteps=1, pool size 1).
// The reported log-likelihood must be the sum over the sequences of the brute-force
// log-likelihoods, and the re-estimated pi / transition rows / categorical emissions must
// be the normalised EXPECTED COUNTS obtained from explicit path enumeration (posterior
// path sums): this is where the float64 forward-backward tables, the marginals and the
// pairwise posteriors of several records are combined.

import (
	"fmt"
	"math"

	ad "github.com/pbenner/autodiff"
	st "github.com/pbenner/autodiff/statistics"
	"github.com/pbenner/autodiff/statistics/generic"
	se "github.com/pbenner/autodiff/statistics/scalarEstimator"
	vd "github.com/pbenner/autodiff/statistics/vectorDistribution"
	ve "github.com/pbenner/autodiff/statistics/vectorEstimator"
	"github.com/pbenner/threadpool"

	"verif/mc/vf"
)

type BWCase struct {
	Model Model       `json:"model"`
	Table [][]float64 `json:"emission"`
	Seqs  [][]int     `json:"sequences"`
}

func runBWCase(c *vf.Ctx, cs *BWCase, idx int64) {
	mo := cs.Model
	m := mo.M
	sm := semantics(mo)
	if !sm.ok {
		return
	}
	ntot := 0
	for _, s := range cs.Seqs {
		ntot += len(s)
	}
	rk := rank(mo, ntot, idx) | int64(len(cs.Seqs))<<54
	ac := AnyCase{BW: cs}
	name := "vectorEstimator.HmmEstimator[1 step]"
	viol := func(quantity, wh, msg string) {
		c.Violate(hkey(name, mo, quantity, wh), fmt.Sprintf("%s [pi=%v tr=%v map=%v start=%v final=%v emission=%v data=%v]", msg, mo.Pi, mo.Tr, mo.Map, mo.Start, mo.Final, cs.Table, cs.Seqs), rk, ac)
	}
	// ---- reference: expected counts by path enumeration
	nc := len(cs.Table)
	L := 0.0
	pi0 := make([]float64, m)
	cnt := make([][]float64, m)
	for i := range cnt {
		cnt[i] = make([]float64, m)
	}
	em := make([][]float64, nc)
	for cl := range em {
		em[cl] = make([]float64, 2)
	}
	multi := false
	for _, sq := range cs.Seqs {
		hc := &Case{Family: "categorical", Model: mo, Table: cs.Table, Seq: sq}
		b := bruteForce(sm, emissions(hc))
		if b.total == 0 {
			c.Outcome("bw:zero-mass-record")
			return
		}
		if b.npos >= 2 {
			multi = true
		}
		L += math.Log(b.total)
		n := len(sq)
		last := n - 1 // transitions k -> k+1 for k < last are counted
		if mo.Final != nil {
			last = n - 2
		}
		for pi, y := range b.paths {
			w := b.p[pi] / b.total
			if w == 0 {
				continue
			}
			pi0[y[0]] += w
			for k := 0; k < n; k++ {
				em[mo.Map[y[k]]][sq[k]] += w
				if k < last {
					cnt[y[k]][y[k+1]] += w
				}
			}
		}
	}
	c.Eval(1)
	if multi {
		c.Nontrivial(1)
	}
	// ---- library
	var gotL = math.NaN()
	calls := 0
	var res *vd.Hmm
	err := guard(func() error {
		pi, tr := mkPiTr(mo, ad.Float64Type)
		ests := make([]st.ScalarEstimator, nc)
		for cl := range ests {
			e, err := se.NewCategoricalEstimator(append([]float64{}, cs.Table[cl]...))
			if err != nil {
				return err
			}
			ests[cl] = e
		}
		hook := generic.BaumWelchHook{Value: func(h generic.BasicHmm, i int, lik, eps float64) {
			if i == 1 {
				gotL = lik
			}
			calls++
		}}
		est, err := ve.NewHmmEstimator(pi, tr, mo.Map, mo.Start, mo.Final, ests, 0.0, 1, hook)
		if err != nil {
			return err
		}
		xs := make([]ad.ConstVector, len(cs.Seqs))
		for r, sq := range cs.Seqs {
			v := ad.NullDenseFloat64Vector(len(sq))
			for k, s := range sq {
				v.At(k).SetFloat64(float64(s))
			}
			xs[r] = v
		}
		if err := est.EstimateOnData(xs, nil, threadpool.ThreadPool{}); err != nil {
			return err
		}
		d, err := est.GetEstimate()
		if err != nil {
			return err
		}
		res = d.(*vd.Hmm)
		return nil
	})
	if err != nil {
		if len(mo.Final) > 1 && errKind(err) == "error" {
			c.Outcome("bw:refused:several-final-states")
			return
		}
		viol("estep", errKind(err), "data of positive probability, one Baum-Welch step fails: "+err.Error())
		return
	}
	if calls != 2 {
		viol("hook", "calls", fmt.Sprintf("hook called %d times for one iteration (expected call 0 and call 1)", calls))
	}
	if !(math.Abs(gotL-L) <= tol*math.Max(1, math.Abs(L))) {
		viol("loglik-of-dataset", what(gotL), fmt.Sprintf("reported log-likelihood %.15g, sum of path-enumeration log-likelihoods %.15g", gotL, L))
	}
	const t2 = 1e-9
	// pi
	{
		s := 0.0
		for _, v := range pi0 {
			s += v
		}
		for i := 0; i < m; i++ {
			got := math.Exp(res.Pi.At(i).GetFloat64())
			if !(math.Abs(got-pi0[i]/s) <= t2) {
				viol("expected-initial-counts", "value", fmt.Sprintf("re-estimated pi(%d) = %.12g, normalised expected count %.12g", i, got, pi0[i]/s))
			}
		}
	}
	for i := 0; i < m; i++ {
		s := 0.0
		for _, v := range cnt[i] {
			s += v
		}
		if s == 0 {
			continue // state never left: the M-step is not determined for this row
		}
		for j := 0; j < m; j++ {
			got := math.Exp(res.Tr.At(i, j).GetFloat64())
			if !(math.Abs(got-cnt[i][j]/s) <= t2) {
				viol("expected-transition-counts", "value", fmt.Sprintf("re-estimated tr(%d,%d) = %.12g, normalised expected count %.12g", i, j, got, cnt[i][j]/s))
			}
		}
	}
	for cl := 0; cl < nc; cl++ {
		s := em[cl][0] + em[cl][1]
		if s == 0 {
			continue
		}
		th := res.Edist[cl].GetParameters()
		for x := 0; x < 2; x++ {
			got := math.Exp(th.At(x).GetFloat64())
			if !(math.Abs(got-em[cl][x]/s) <= t2) {
				viol("expected-emission-counts", "value", fmt.Sprintf("re-estimated theta[class %d](%d) = %.12g, normalised expected count %.12g", cl, x, got, em[cl][x]/s))
			}
		}
	}
	c.Outcome(fmt.Sprintf("bw:ok:records=%d", len(cs.Seqs)))
}

func (r *runner) sweepBW(m int, b bounds, pairMax int) {
	c := r.c
	var data [][][]int
	for _, s := range seqsUpTo(b.nmax, 2, false) {
		data = append(data, [][]int{s})
	}
	short := seqsUpTo(pairMax, 2, false)
	for _, s1 := range short {
		for _, s2 := range short {
			data = append(data, [][]int{s1, s2})
		}
	}
	mkModels(m, b, func(md Model) {
		r.idx++
		if !c.Mine(r.idx) {
			return
		}
		if sm := semantics(md); !sm.ok {
			return
		}
		c.Count("baumwelch_models", 1)
		nc, used := usedClasses(md.Map)
		for _, tb := range tables(nc, 2, used, b.emAlph) {
			for _, d := range data {
				cs := BWCase{Model: md, Table: tb, Seqs: d}
				c.Guard("baumwelch-step", rank(md, 0, r.idx), AnyCase{BW: &cs})
				runBWCase(c, &cs, r.idx)
			}
		}
	})
}
