// C19: explicit-state model checking of the AVL tree (ordered integer index)
// against a sorted-set model. States are real trees (+ live iterators) rebuilt by
// replaying the shortest history; BFS to fixpoint over a fixed key universe.
package main

import (
	"encoding/json"
	"fmt"
	"math"
	"sort"
	"strings"

	ad "github.com/pbenner/autodiff"
	"verif/mc/vf"
)

// Op codes
const (
	opInsert   = "I"  // Insert(k)
	opDelete   = "D"  // Delete(k)
	opIter     = "It" // slot := Iterator()
	opIterFrom = "If" // slot := IteratorFrom(k)
	opNext     = "N"  // slot.Next()
	opDrop     = "X"  // forget slot
)

type Op struct {
	C string `json:"op"`
	K int    `json:"k,omitempty"`
	S int    `json:"slot,omitempty"`
}

func (o Op) String() string { return fmt.Sprintf("%s(%d,%d)", o.C, o.K, o.S) }

type iterModel struct {
	live bool
	cur  int // value the iterator is positioned on
	ok   bool
}

type world struct {
	tree  *ad.AvlTree
	set   map[int]bool
	its   []*ad.AvlIterator
	mits  []iterModel
	fail  string // first oracle failure while applying ops
	fkey  string
	nslot int
}

func newWorld(nslot int) *world {
	return &world{tree: ad.NewAvlTree(), set: map[int]bool{}, its: make([]*ad.AvlIterator, nslot), mits: make([]iterModel, nslot), nslot: nslot}
}

func (w *world) sorted() []int {
	r := []int{}
	for k := range w.set {
		r = append(r, k)
	}
	sort.Ints(r)
	return r
}

func (w *world) succ(v int, strict bool) (int, bool) {
	best, ok := 0, false
	for k := range w.set {
		if (strict && k > v) || (!strict && k >= v) {
			if !ok || k < best {
				best, ok = k, true
			}
		}
	}
	return best, ok
}

func (w *world) failf(key, f string, a ...any) {
	if w.fail == "" {
		w.fail = fmt.Sprintf(f, a...)
		w.fkey = key
	}
}

// apply executes one op on implementation and model and checks the step oracle.
func (w *world) apply(o Op) {
	defer func() {
		if r := recover(); r != nil {
			w.failf("panic|"+o.C, "panic in %v: %v", o, r)
		}
	}()
	switch o.C {
	case opInsert:
		got := w.tree.Insert(o.K)
		want := !w.set[o.K]
		w.set[o.K] = true
		if got != want {
			w.failf("ret|Insert", "Insert(%d) returned %v, set changed=%v", o.K, got, want)
		}
	case opDelete:
		got := w.tree.Delete(o.K)
		want := w.set[o.K]
		delete(w.set, o.K)
		if got != want {
			w.failf("ret|Delete", "Delete(%d) returned %v, set changed=%v", o.K, got, want)
		}
	case opIter:
		it := w.tree.Iterator()
		v, ok := w.succ(math.MinInt, false)
		w.its[o.S], w.mits[o.S] = it, iterModel{true, v, ok}
		w.checkIterPos(o, o.S)
	case opIterFrom:
		it := w.tree.IteratorFrom(o.K)
		v, ok := w.succ(o.K, false)
		w.its[o.S], w.mits[o.S] = it, iterModel{true, v, ok}
		w.checkIterPos(o, o.S)
	case opNext:
		m := &w.mits[o.S]
		w.its[o.S].Next()
		v, ok := w.succ(m.cur, true)
		m.cur, m.ok = v, ok
		w.checkIterPos(o, o.S)
	case opDrop:
		w.its[o.S], w.mits[o.S] = nil, iterModel{}
	}
	// an iterator that reached its end is dead (the property says nothing about reviving it)
	for s := range w.mits {
		if w.mits[s].live && !w.mits[s].ok {
			w.its[s], w.mits[s] = nil, iterModel{}
		}
	}
}

func (w *world) checkIterPos(o Op, s int) {
	it, m := w.its[s], w.mits[s]
	if it.Ok() != m.ok {
		w.failf("iter|"+o.C+"|ok", "after %v iterator Ok()=%v, model %v (set %v, expected position %d)", o, it.Ok(), m.ok, w.sorted(), m.cur)
		// keep the model's view so later steps are not explored from an inconsistent pair
		return
	}
	if m.ok && it.Get() != m.cur {
		w.failf("iter|"+o.C+"|pos", "after %v iterator at %d, expected %d (set %v)", o, it.Get(), m.cur, w.sorted())
	}
}

// ---- structural observation -------------------------------------------------

type shape struct {
	sb    strings.Builder
	paths map[*ad.AvlNode]string
	bad   string
	n     int
}

func height(n *ad.AvlNode, depth int, bad *string) int {
	if n == nil {
		return 0
	}
	if depth > 64 {
		if *bad == "" {
			*bad = "cycle"
		}
		return 0
	}
	l, r := height(n.Left, depth+1, bad), height(n.Right, depth+1, bad)
	if l > r {
		return l + 1
	}
	return r + 1
}

func (sh *shape) walk(n, parent *ad.AvlNode, path string, lo, hi *int, depth int) int {
	if n == nil {
		sh.sb.WriteString(".")
		return 0
	}
	if depth > 64 || sh.n > 4096 {
		if sh.bad == "" {
			sh.bad = "struct|cycle: child links form a cycle"
		}
		return 0
	}
	sh.n++
	if _, dup := sh.paths[n]; dup {
		if sh.bad == "" {
			sh.bad = "struct|shared: node reachable twice"
		}
		return 0
	}
	sh.paths[n] = path
	pflag := ""
	if n.Parent != parent {
		pflag = "!P"
		if p, ok := sh.paths[n.Parent]; ok {
			pflag += "@" + p
		} else if n.Parent == nil {
			pflag += "nil"
		} else {
			pflag += "?"
		}
		if sh.bad == "" {
			sh.bad = fmt.Sprintf("struct|parent: node %d at %q has wrong Parent link", n.Value, path)
		}
	}
	if n.Deleted {
		pflag += "!D"
		if sh.bad == "" {
			sh.bad = fmt.Sprintf("struct|deleted: reachable node %d is marked Deleted", n.Value)
		}
	}
	if (lo != nil && n.Value <= *lo) || (hi != nil && n.Value >= *hi) {
		if sh.bad == "" {
			sh.bad = fmt.Sprintf("struct|order: node %d at %q violates search-tree order", n.Value, path)
		}
	}
	sh.sb.WriteString("(")
	v := n.Value
	hl := sh.walk(n.Left, n, path+"L", lo, &v, depth+1)
	fmt.Fprintf(&sh.sb, " %d#%d%s ", n.Value, n.Balance, pflag)
	hr := sh.walk(n.Right, n, path+"R", &v, hi, depth+1)
	sh.sb.WriteString(")")
	if d := hr - hl; d < -1 || d > 1 {
		if sh.bad == "" {
			sh.bad = fmt.Sprintf("struct|height: node %d heights L=%d R=%d", n.Value, hl, hr)
		}
	} else if n.Balance != hr-hl {
		if sh.bad == "" {
			sh.bad = fmt.Sprintf("struct|balance: node %d Balance=%d but heights L=%d R=%d", n.Value, n.Balance, hl, hr)
		}
	}
	if hl > hr {
		return hl + 1
	}
	return hr + 1
}

func observe(t *ad.AvlTree) *shape {
	sh := &shape{paths: map[*ad.AvlNode]string{}}
	sh.walk(t.Root, nil, "", nil, nil, 0)
	return sh
}

// canon returns the canonical state key and the first structural failure.
func (w *world) canon() (string, string) {
	sh := observe(w.tree)
	var sb strings.Builder
	sb.WriteString(sh.sb.String())
	// iterators: unordered slots -> sort their descriptions
	var ds []string
	for s, it := range w.its {
		if it == nil {
			continue
		}
		_ = s
		n := ad.VerifAvlIteratorNode(it)
		d := fmt.Sprintf("v=%d", ad.VerifAvlIteratorValue(it))
		if n == nil {
			d += ",end"
		} else if p, ok := sh.paths[n]; ok {
			d += ",at=/" + p
		} else {
			d += fmt.Sprintf(",detached(val=%d,del=%v)", n.Value, n.Deleted)
			if !n.Deleted {
				// detached but live: its links matter for Next(); describe them
				for _, q := range []*ad.AvlNode{n.Left, n.Right, n.Parent} {
					if q == nil {
						d += ",nil"
					} else if p, ok := sh.paths[q]; ok {
						d += ",/" + p
					} else {
						d += ",?"
					}
				}
			}
		}
		if ad.VerifAvlIteratorTree(it) != w.tree {
			d += ",foreign-tree"
		}
		ds = append(ds, d)
	}
	sort.Strings(ds)
	sb.WriteString(" | ")
	sb.WriteString(strings.Join(ds, ";"))
	return sb.String(), sh.bad
}

// fullChecks runs every read-only oracle of the property on the current state.
func (w *world) fullChecks(K int) {
	defer func() {
		if r := recover(); r != nil {
			w.failf("panic|read", "panic in read-only check: %v", r)
		}
	}()
	want := w.sorted()
	// membership and lower bound
	for _, k := range probeKeys(K) {
		n := w.tree.FindNode(k)
		if (n != nil) != w.set[k] {
			w.failf("find|FindNode", "FindNode(%d) found=%v, member=%v (set %v)", k, n != nil, w.set[k], want)
		} else if n != nil && n.Value != k {
			w.failf("find|FindNode", "FindNode(%d) returned node %d", k, n.Value)
		}
		lb := w.tree.FindNodeLE(k)
		v, ok := w.succ(k, false)
		if (lb != nil) != ok || (ok && lb.Value != v) {
			w.failf("find|FindNodeLE", "FindNodeLE(%d) wrong lower bound (set %v)", k, want)
		}
	}
	// iteration from the start and from every lower bound, plain and safe
	walk := func(it *ad.AvlIterator) ([]int, bool) {
		r := []int{}
		for i := 0; it.Ok(); i++ {
			if i > K+2 {
				return r, false
			}
			r = append(r, it.Get())
			it.Next()
		}
		return r, true
	}
	cmp := func(name string, got []int, fin bool, from int) {
		exp := []int{}
		for _, v := range want {
			if v >= from {
				exp = append(exp, v)
			}
		}
		if !fin {
			w.failf("iterate|"+name+"|nonterm", "%s from %d does not terminate (set %v, got %v...)", name, from, want, got)
		} else if fmt.Sprint(got) != fmt.Sprint(exp) {
			w.failf("iterate|"+name, "%s from %d yields %v, set %v", name, from, got, want)
		}
	}
	g, f := walk(w.tree.Iterator())
	cmp("Iterator", g, f, math.MinInt)
	g, f = walk(w.tree.SafeIterator())
	cmp("SafeIterator", g, f, math.MinInt)
	for _, k := range probeKeys(K) {
		g, f = walk(w.tree.IteratorFrom(k))
		cmp("IteratorFrom", g, f, k)
		g, f = walk(w.tree.SafeIteratorFrom(k))
		cmp("SafeIteratorFrom", g, f, k)
	}
	// iterator Clone: a cloned iterator continues independently and identically
	for s, it := range w.its {
		if it == nil {
			continue
		}
		c := it.Clone()
		g1, f1 := walk(&c)
		exp := []int{}
		for _, v := range want {
			if v > w.mits[s].cur {
				exp = append(exp, v)
			}
		}
		exp = append([]int{w.mits[s].cur}, exp...)
		if !f1 || fmt.Sprint(g1) != fmt.Sprint(exp) {
			w.failf("iterate|live-continue", "live iterator at %d continues with %v, expected %v (set %v)", w.mits[s].cur, g1, exp, want)
		}
		if it.Get() != w.mits[s].cur || !it.Ok() {
			w.failf("clone|iterator", "walking a cloned iterator moved the original")
		}
	}
}

// cloneChecks: Clone is observably equal, shares no node, and mutations of either
// side are invisible through the other; SafeIterator is a snapshot.
func (w *world) cloneChecks(K int, hist []Op) {
	defer func() {
		if r := recover(); r != nil {
			w.failf("panic|clone", "panic in clone check: %v", r)
		}
	}()
	base := observe(w.tree)
	for k0 := 0; k0 < K; k0++ {
		k := ukey(K, k0)
		for _, del := range []bool{false, true} {
			c := w.tree.Clone()
			oc := observe(c)
			if oc.sb.String() != base.sb.String() {
				w.failf("clone|equal", "Clone differs from source: %s vs %s", oc.sb.String(), base.sb.String())
				return
			}
			if oc.bad != "" && base.bad == "" {
				w.failf("clone|"+strings.SplitN(oc.bad, ":", 2)[0], "Clone is structurally broken: %s", oc.bad)
				return
			}
			for n := range oc.paths {
				if _, sh := base.paths[n]; sh {
					w.failf("clone|shared", "Clone shares a node with its source")
					return
				}
			}
			si := w.tree.SafeIterator()
			// mutate the clone, the source must not change
			if del {
				c.Delete(k)
			} else {
				c.Insert(k)
			}
			if o2 := observe(w.tree); o2.sb.String() != base.sb.String() {
				w.failf("clone|indep-src", "mutating a clone changed the source")
				return
			}
			// the mutated clone itself must be a correct tree
			cs := map[int]bool{}
			for x := range w.set {
				cs[x] = true
			}
			if del {
				delete(cs, k)
			} else {
				cs[k] = true
			}
			o3 := observe(c)
			if o3.bad != "" {
				w.failf("clone|then-"+strings.SplitN(o3.bad, ":", 2)[0], "clone broken after mutation: %s", o3.bad)
				return
			}
			got := []int{}
			for it, i := c.Iterator(), 0; it.Ok() && i < K+3; it.Next() {
				got = append(got, it.Get())
				i++
			}
			exp := []int{}
			for x := range cs {
				exp = append(exp, x)
			}
			sort.Ints(exp)
			if fmt.Sprint(got) != fmt.Sprint(exp) {
				w.failf("clone|then-iterate", "mutated clone iterates %v, expected %v", got, exp)
				return
			}
			// mutate a second clone's source: build source copy by replay to keep w intact
			w2 := build(hist, w.nslot)
			c2 := w2.tree.Clone()
			before := observe(c2).sb.String()
			si2 := w2.tree.SafeIterator()
			// snapshots from a bound, taken before the source changes
			pk := probeKeys(K)
			sif := make([]*ad.AvlIterator, len(pk))
			for i, kb := range pk {
				sif[i] = w2.tree.SafeIteratorFrom(kb)
			}
			if del {
				w2.tree.Delete(k)
			} else {
				w2.tree.Insert(k)
			}
			for i, kb := range pk {
				got := []int{}
				for j := 0; sif[i].Ok() && j < K+3; j++ {
					got = append(got, sif[i].Get())
					sif[i].Next()
				}
				exp := []int{}
				for _, v := range w.sorted() {
					if v >= kb {
						exp = append(exp, v)
					}
				}
				if fmt.Sprint(got) != fmt.Sprint(exp) {
					w.failf("clone|safeiterfrom-snapshot", "SafeIteratorFrom(%d) taken before a mutation yields %v, snapshot %v", kb, got, exp)
					return
				}
			}
			if observe(c2).sb.String() != before {
				w.failf("clone|indep-clone", "mutating the source changed an earlier clone")
				return
			}
			for _, sit := range []*ad.AvlIterator{si, si2} {
				got := []int{}
				for i := 0; sit.Ok() && i < K+3; i++ {
					got = append(got, sit.Get())
					sit.Next()
				}
				if fmt.Sprint(got) != fmt.Sprint(w.sorted()) {
					w.failf("clone|safeiter-snapshot", "SafeIterator taken before a mutation yields %v, snapshot %v", got, w.sorted())
					return
				}
			}
		}
	}
}

// probeKeys: every key of the universe and, where representable, its two neighbours; the
// extreme ints always (a bound may be further than MaxInt away from every key)
func probeKeys(K int) []int {
	m := map[int]bool{math.MinInt: true, math.MaxInt: true}
	for k0 := 0; k0 < K; k0++ {
		k := ukey(K, k0)
		m[k] = true
		if k > math.MinInt {
			m[k-1] = true
		}
		if k < math.MaxInt {
			m[k+1] = true
		}
	}
	r := []int{}
	for k := range m {
		r = append(r, k)
	}
	sort.Ints(r)
	return r
}

func build(hist []Op, nslot int) *world {
	w := newWorld(nslot)
	for _, o := range hist {
		w.apply(o)
	}
	return w
}

// keyOff is the smallest key of the universe: keys are {keyOff .. keyOff+K-1}. Universes that contain
// negative keys, zero, and the extreme ints are explored too (a seeded change special-cased
// lower bounds <= 0; the re-find after a deletion adds 1 to the current key).
var keyOff int

// spread: when set, the universe is not contiguous but spans the whole int range
// (keys further apart than MaxInt: differences of keys and bounds must not be formed)
var spread bool

func spreadKeys(K int) []int {
	switch K {
	case 3:
		return []int{math.MinInt, 0, math.MaxInt}
	case 4:
		return []int{math.MinInt, -1, 1, math.MaxInt}
	case 5:
		return []int{math.MinInt, -1, 0, 1, math.MaxInt}
	case 6:
		return []int{math.MinInt, math.MinInt / 2, -1, 1, math.MaxInt / 2, math.MaxInt}
	case 7:
		return []int{math.MinInt, math.MinInt / 2, -1, 0, 1, math.MaxInt / 2, math.MaxInt}
	}
	panic("spreadKeys: unsupported universe size")
}

// ukey: the k-th key of the universe
func ukey(K, k int) int {
	if spread {
		return spreadKeys(K)[k]
	}
	return keyOff + k
}

type Case struct {
	Off    int  `json:"key_offset"`
	K      int  `json:"universe"`
	Slots  int  `json:"iterator_slots"`
	Hist   []Op `json:"history"`
	Spread bool `json:"spread_universe,omitempty"`
}

func enabled(w *world, K int) []Op {
	ops := []Op{}
	for k := 0; k < K; k++ {
		ops = append(ops, Op{C: opInsert, K: ukey(K, k)})
	}
	for k := 0; k < K; k++ {
		ops = append(ops, Op{C: opDelete, K: ukey(K, k)})
	}
	free := -1
	for s := range w.its {
		if w.its[s] != nil {
			ops = append(ops, Op{C: opNext, S: s})
		} else if free < 0 {
			free = s
		}
	}
	if free >= 0 {
		ops = append(ops, Op{C: opIter, S: free})
		for k := 0; k < K; k++ {
			ops = append(ops, Op{C: opIterFrom, K: ukey(K, k), S: free})
		}
	}
	return ops
}

func exploreSpread(c *vf.Ctx, K, slots int) {
	spread = true
	defer func() { spread = false }()
	explore(c, K, slots, 0)
}

func explore(c *vf.Ctx, K, slots, off int) {
	keyOff = off
	type item struct{ hist []Op }
	seen := map[string]bool{}
	w0 := newWorld(slots)
	k0, _ := w0.canon()
	seen[k0] = true
	frontier := []item{{nil}}
	var idx int64
	depth := 0
	for len(frontier) > 0 {
		var next []item
		for _, it := range frontier {
			w := build(it.hist, slots)
			for _, o := range enabled(w, K) {
				idx++
				hist := append(append([]Op{}, it.hist...), o)
				cs := Case{off, K, slots, hist, spread}
				c.Guard(fmt.Sprintf("K=%d,off=%d,spread=%v|%s", K, off, spread, o.C), int64(len(hist)), cs)
				n := build(hist, slots)
				if c.Shard == 0 {
					c.Trans(1)
				}
				key, bad := n.canon()
				if bad != "" {
					n.failf(strings.SplitN(bad, ":", 2)[0], "%s", bad)
				}
				// the expensive read-only and clone oracles are sharded; the successor
				// computation itself is repeated in every shard (it is the state space)
				if c.Mine(idx) {
					c.Eval(1)
					c.Traces(1)
					if n.fail == "" {
						n.fullChecks(K)
					}
					if n.fail == "" && !seen[key] {
						n.cloneChecks(K, hist)
					}
					// determinism: replay must reproduce the same state
					if k2, _ := build(hist, slots).canon(); k2 != key {
						c.HarnessError("nondeterministic replay of " + fmt.Sprint(hist))
					}
					if n.fail != "" {
						c.Violate(n.fkey+"|after="+o.C, n.fail, int64(len(hist)), cs)
						c.Outcome("fail:" + n.fkey)
					} else {
						c.Outcome(fmt.Sprintf("ok:size=%d,iters=%d", len(n.set), liveIters(n)))
					}
				}
				if n.fail != "" {
					continue // do not explore beyond a failing state
				}
				if !seen[key] {
					seen[key] = true
					next = append(next, item{hist})
					if c.Shard == 0 && (len(seen) == 50 || len(seen) == 5000) {
						c.Sample(map[string]any{"history": fmt.Sprint(hist), "state": key})
					}
				}
			}
		}
		frontier = next
		depth++
	}
	if c.Shard == 0 {
		c.States(int64(len(seen)))
		c.Nontrivial(int64(len(seen)))
		tag := fmt.Sprintf("K%d_slots%d_off%d", K, slots, off)
		if spread {
			tag = fmt.Sprintf("K%d_slots%d_spread", K, slots)
		}
		c.Count("bfs_depth_"+tag, int64(depth))
		c.Count("states_"+tag, int64(len(seen)))
	}
}

func liveIters(w *world) int {
	n := 0
	for _, it := range w.its {
		if it != nil {
			n++
		}
	}
	return n
}

func main() {
	vf.Main(vf.Spec{
		ID:    "C19",
		Level: "model_checking",
		Rule: "explicit-state BFS to fixpoint over the real AvlTree with key universe {0..K-1}: every Insert/Delete/Iterator/IteratorFrom/Next from every reachable (tree shape, balance factors, live iterator node+value) state; " +
			"a state is non-trivial/distinct by its canonical form (tree with values, balance factors, parent/deleted flags, iterator positions as tree paths); every transition is executed on the implementation by replaying the shortest history on a fresh tree",
		Assume: []string{"keys not in one of the explored universes ({0..K-1}, centred on 0, the K smallest / K largest ints, K keys spread over the whole int range) behave like keys inside (the code compares keys only)", "iterators that reached their end are not used again", "export overlay accessors are read-only"},
		Run: func(c *vf.Ctx) {
			// tree-only exploration reaches larger universes (a seeded change in the
			// delete rebalancing needed 8 distinct keys: height-4 tree + a specific
			// shape below a non-root node), live iterators multiply the state space
			// universes: {0..K-1}; centred on zero (negative keys); the K largest and the
			// K smallest ints (arithmetic on keys must not wrap); spread over the whole int
			// range (keys and bounds further apart than MaxInt)
			if c.Thorough() {
				explore(c, 13, 0, 0)
				explore(c, 10, 1, 0)
				explore(c, 7, 2, 0)
				explore(c, 9, 1, -4)
				explore(c, 6, 2, -3)
				explore(c, 6, 1, math.MaxInt-5)
				explore(c, 6, 1, math.MinInt)
				exploreSpread(c, 7, 1)
				exploreSpread(c, 5, 2)
			} else {
				explore(c, 11, 0, 0)
				explore(c, 7, 1, 0)
				explore(c, 5, 2, 0)
				explore(c, 7, 1, -3)
				explore(c, 4, 2, -2)
				explore(c, 5, 1, math.MaxInt-4)
				explore(c, 5, 1, math.MinInt)
				exploreSpread(c, 5, 1)
				exploreSpread(c, 4, 2)
			}
		},
		Replay: func(c *vf.Ctx, raw json.RawMessage) {
			var cs Case
			if err := json.Unmarshal(raw, &cs); err != nil {
				c.HarnessError(err.Error())
				return
			}
			keyOff = cs.Off
			spread = cs.Spread
			w := build(cs.Hist, cs.Slots)
			if _, bad := w.canon(); bad != "" {
				w.failf(strings.SplitN(bad, ":", 2)[0], "%s", bad)
			}
			if w.fail == "" {
				w.fullChecks(cs.K)
			}
			if w.fail == "" {
				w.cloneChecks(cs.K, cs.Hist)
			}
			if w.fail != "" {
				last := cs.Hist[len(cs.Hist)-1]
				c.Violate(w.fkey+"|after="+last.C, w.fail, int64(len(cs.Hist)), cs)
			}
		},
	})
}
