package main

// (iv) Matrix.Jacobian / Matrix.Hessian helpers against an independent jet evaluation.
// Test functions: the complete family  un( l op r ),  un in {id, exp, sin},
// op in {+,-,*,/}, l,r in {x0,x1,x2,2}; Jacobian uses the pair (expression e, its
// successor in the family) as a function R^3 -> R^2.

import (
	"fmt"
	"math"

	ad "github.com/pbenner/autodiff"

	"verif/mc/vf"
)

const nLeaf, nOp, nUn = 4, 4, 3
const nExpr = nUn * nOp * nLeaf * nLeaf

func exprAt(i int) []int {
	e := make([]int, 4)
	e[3] = i % nLeaf // r
	i /= nLeaf
	e[2] = i % nLeaf // l
	i /= nLeaf
	e[1] = i % nOp
	i /= nOp
	e[0] = i % nUn
	return e
}

func exprString(e []int) string {
	leaf := []string{"x0", "x1", "x2", "2"}
	op := []string{"+", "-", "*", "/"}
	un := []string{"", "exp", "sin"}
	return fmt.Sprintf("%s(%s%s%s)", un[e[0]], leaf[e[2]], op[e[1]], leaf[e[3]])
}

func evalLib(x ad.ConstVector, e []int) ad.Scalar {
	t := x.ElementType()
	leaf := func(k int) ad.ConstScalar {
		if k < 3 {
			return x.ConstAt(k)
		}
		return ad.NewScalar(t, 2.0)
	}
	r := ad.NullScalar(t)
	l, rr := leaf(e[2]), leaf(e[3])
	switch e[1] {
	case 0:
		r.Add(l, rr)
	case 1:
		r.Sub(l, rr)
	case 2:
		r.Mul(l, rr)
	case 3:
		r.Div(l, rr)
	}
	s := ad.NullScalar(t)
	switch e[0] {
	case 0:
		return r
	case 1:
		s.Exp(r)
	case 2:
		s.Sin(r)
	}
	return s
}

func evalJet(x []jet, e []int) jet {
	leaf := func(k int) jet {
		if k < 3 {
			return x[k]
		}
		return newJet(3, 2)
	}
	l, r := leaf(e[2]), leaf(e[3])
	var v jet
	switch e[1] {
	case 0:
		v = l.add(r)
	case 1:
		v = l.sub(r)
	case 2:
		v = l.mul(r)
	case 3:
		v = l.div(r)
	}
	switch e[0] {
	case 1:
		return v.exp()
	case 2:
		return v.sin()
	}
	return v
}

func judgeHelper(cs *Case) verdict {
	xt := elemTypes[cs.Elem]
	rt := elemTypes[cs.Recv]
	u := math.Max(unitRoundoff(cs.Elem), unitRoundoff(cs.Recv))
	x := ad.NullDenseMagicVector(xt, 3)
	pre := has(cs.Opt, "preactivated")
	// staleOrd: the argument's elements are results of an earlier computation in the same
	// three variables (same N, order 1 or 2) and still carry its gradient / Hessian
	staleOrd := 0
	if has(cs.Opt, "stale1") {
		staleOrd = 1
	} else if has(cs.Opt, "stale2") {
		staleOrd = 2
	}
	staleG := func(i, k int) float64 { return 0.5 + float64((2*i+k)%3) }
	staleH := func(i, k, l int) float64 { return 0.25 + float64((i+k+2*l)%4) }
	for i := 0; i < 3; i++ {
		x.MagicAt(i).SetFloat64(float64(cs.X[i]))
		if pre {
			// the argument already is a variable of some outer computation
			x.MagicAt(i).SetVariable(i+1, 5, 2)
			x.MagicAt(i).SetDerivative(0, 3.5)
		}
		if staleOrd > 0 {
			x.MagicAt(i).Alloc(3, staleOrd)
			for k := 0; k < 3; k++ {
				x.MagicAt(i).SetDerivative(k, staleG(i, k))
				for l := 0; l < 3 && staleOrd > 1; l++ {
					x.MagicAt(i).SetHessian(k, l, staleH(i, k, l))
				}
			}
		}
	}
	xj := make([]jet, 3)
	for i := range xj {
		xj[i] = jetVar(3, i, float64(cs.X[i]))
	}
	cls := "helper"
	if pre {
		cls = "helper,x-preactivated"
	}
	if staleOrd > 0 {
		cls = fmt.Sprintf("helper,x-carries-stale-order%d-derivatives", staleOrd)
	}
	v := verdict{outcome: "ok", nontriv: true, class: cls}
	fail := func(bad, what string) verdict {
		v.outcome, v.bad, v.what = bad, bad, what
		return v
	}
	var refs []jet
	ne := len(cs.Expr) / 4
	for k := 0; k < ne; k++ {
		refs = append(refs, evalJet(xj, cs.Expr[4*k:4*k+4]))
	}
	for _, r := range refs {
		if !r.finite() {
			return verdict{outcome: "skip:nonfinite-reference"}
		}
	}
	var R ad.Matrix
	res := guarded(3, func() ([]ad.ConstScalar, error) {
		switch cs.Routine {
		case "Jacobian":
			R = ad.NullDenseMatrix(rt, ne, 3)
			f := func(x ad.ConstVector) ad.ConstVector {
				y := ad.NullDenseVector(x.ElementType(), ne)
				for k := 0; k < ne; k++ {
					y.At(k).Set(evalLib(x, cs.Expr[4*k:4*k+4]))
				}
				return y
			}
			R.Jacobian(f, x)
		case "Hessian":
			R = ad.NullDenseMatrix(rt, 3, 3)
			f := func(x ad.ConstVector) ad.ConstScalar { return evalLib(x, cs.Expr[0:4]) }
			R.Hessian(f, x)
		}
		return nil, nil
	})
	if res.loud() {
		return fail("panic", fmt.Sprintf("helper panicked: %v %v", res.err, res.pan))
	}
	rows, cols := R.Dims()
	for i := 0; i < rows; i++ {
		for j := 0; j < cols; j++ {
			var want, scale float64
			if cs.Routine == "Jacobian" {
				want, scale = refs[i].g[j], refs[i].maxAbs(1)
			} else {
				want, scale = refs[0].h[i][j], refs[0].maxAbs(2)
			}
			tol := 64 * u * math.Max(1, scale)
			got := R.ConstAt(i, j).GetFloat64()
			d := math.Abs(got - want)
			if r := d / tol; r > v.margin {
				v.margin = r
			}
			if !(d <= tol) {
				return fail(cs.Routine+"!=partials", fmt.Sprintf("%s[%d,%d]=%v, reference partial %v (tol %.3g)", cs.Routine, i, j, got, want, tol))
			}
		}
	}
	// the argument must be left as it was
	for i := 0; i < 3; i++ {
		s := x.ConstAt(i)
		if s.GetFloat64() != float64(cs.X[i]) {
			return fail("argument-modified", "helper changed the value of its argument")
		}
		if pre {
			if s.GetOrder() != 2 || s.GetN() != 5 || s.GetDerivative(i+1) != 1 || s.GetDerivative(0) != 3.5 {
				return fail("argument-modified", "helper changed the derivative state of its argument")
			}
		} else if staleOrd > 0 {
			ok := s.GetOrder() == staleOrd && s.GetN() == 3
			for k := 0; k < 3 && ok; k++ {
				ok = s.GetDerivative(k) == staleG(i, k)
				for l := 0; l < 3 && ok && staleOrd > 1; l++ {
					ok = s.GetHessian(k, l) == staleH(i, k, l)
				}
			}
			if !ok {
				return fail("argument-modified", "helper changed the derivative state of its argument")
			}
		} else if s.GetOrder() != 0 {
			return fail("argument-modified", "helper activated its argument")
		}
	}
	return v
}

func exploreHelpers(c *vf.Ctx) {
	pts := []int{1, -1, 2}
	recvs := []string{"Float64", "Real64", "Float32", "Real32"}
	var idx int64
	for e := 0; e < nExpr; e++ {
		for p := 0; p < 27; p++ {
			idx++
			if !c.Mine(idx) {
				continue
			}
			X := []int{pts[p%3], pts[(p/3)%3], pts[(p/9)%3]}
			for _, xe := range []string{"Real64", "Real32"} {
				for _, rv := range recvs {
					for _, opt := range []string{"", "preactivated", "stale1", "stale2"} {
						for _, routine := range []string{"Jacobian", "Hessian"} {
							ex := exprAt(e)
							if routine == "Jacobian" {
								ex = append(ex, exprAt((e+1)%nExpr)...)
							}
							cs := &Case{Routine: routine, Elem: xe, Recv: rv, Opt: opt, Expr: ex, X: X}
							rank := int64(9)*1e15 + int64(e)*1000 + int64(p)
							c.Guard("helper", rank, cs)
							v := judge(cs)
							c.Eval(1)
							if v.nontriv {
								c.Nontrivial(1)
							}
							c.Outcome(routine + "|" + rv + "|" + xe + "|" + v.outcome)
							c.Count("outcome:"+routine+":"+v.outcome, 1)
							if v.nontriv {
								c.Count("margin(err/tol):helper:"+marginBucket(v.margin), 1)
							}
							if v.bad != "" {
								c.Violate(keyOf(cs, v), fmt.Sprintf("%s of f=%s.. at x=%v recv=%s x-type=%s: %s", routine, exprString(ex[0:4]), X, rv, xe, v.what), rank, cs)
							}
						}
					}
				}
			}
		}
	}
}
