package main

// Reference matrix calculus from the exact integer/rational reference (package exact).
// A "problem" describes one routine call: its input slots (scalar inputs that may be
// activated as variables), its outputs, and for every output the exact value and the
// first and second partial derivatives with respect to the input slots, treating slots
// as independent. The chain to the actual variables (several slots may carry the same
// variable, e.g. A_ij and A_ji of a symmetric parametrisation) is a plain sum because
// slots are linear in the variables.

import (
	"math"

	"verif/mc/cmd/c04/exact"
)

type problem struct {
	nslots int
	nout   int
	val    func(o int) float64
	g      func(o, s int) float64
	h      func(o, s, t int) float64
	kappa  float64 // condition number of the (sub)matrix involved (>=1)
	mag    float64 // magnitude scale: max(1, |A^-1|_max) or similar
}

func delta(a, b int) float64 {
	if a == b {
		return 1
	}
	return 0
}

// linref holds the exact data of the selected block B = A[S,S].
type linref struct {
	n    int
	pos  []int // full index -> block index or -1
	idx  []int
	B    exact.Mat
	det  int64
	adj  exact.Mat
	X    [][]float64 // block inverse (nil if singular)
	kap  float64
	xmax float64
}

func newLinref(m exact.Mat, mask []bool) *linref {
	n := m.N
	sel := mask
	if sel == nil {
		sel = make([]bool, n)
		for i := range sel {
			sel[i] = true
		}
	}
	B, idx := m.Sub(sel)
	r := &linref{n: n, idx: idx, B: B, pos: make([]int, n)}
	for i := range r.pos {
		r.pos[i] = -1
	}
	for a, i := range idx {
		r.pos[i] = a
	}
	r.det = 1
	r.kap, r.xmax = 1, 1
	if B.N > 0 {
		r.det = B.Det()
		if r.det != 0 {
			r.adj = B.Adj()
			r.X = make([][]float64, B.N)
			for i := range r.X {
				r.X[i] = make([]float64, B.N)
				for j := range r.X[i] {
					r.X[i][j] = float64(r.adj.At(i, j)) / float64(r.det)
					r.xmax = math.Max(r.xmax, math.Abs(r.X[i][j]))
				}
			}
			r.kap = exact.Kappa(B, r.adj, r.det)
		}
	}
	return r
}

// x returns the inverse entry in full coordinates (identity outside the block).
func (r *linref) x(i, j int) float64 {
	a, b := r.pos[i], r.pos[j]
	if a < 0 || b < 0 {
		return delta(i, j)
	}
	return r.X[a][b]
}

// xb: block inverse entry, 0 if either index is outside the block (for derivative formulas)
func (r *linref) xb(i, j int) float64 {
	a, b := r.pos[i], r.pos[j]
	if a < 0 || b < 0 {
		return 0
	}
	return r.X[a][b]
}

// inverse: outputs o=i*n+j -> X_ij; slots s=k*n+l -> A_kl.
//
//	dX_ij/dA_kl = -X_ik X_lj ;  d2X_ij/dA_kl dA_pq = X_ip X_qk X_lj + X_ik X_lp X_qj
func (r *linref) inverseProblem() problem {
	n := r.n
	return problem{nslots: n * n, nout: n * n, kappa: r.kap, mag: r.xmax,
		val: func(o int) float64 { return r.x(o/n, o%n) },
		g: func(o, s int) float64 {
			i, j, k, l := o/n, o%n, s/n, s%n
			return -r.xb(i, k) * r.xb(l, j)
		},
		h: func(o, s, t int) float64 {
			i, j, k, l, p, q := o/n, o%n, s/n, s%n, t/n, t%n
			return r.xb(i, p)*r.xb(q, k)*r.xb(l, j) + r.xb(i, k)*r.xb(l, p)*r.xb(q, j)
		}}
}

// solve: gaussJordan.Run(a, x=I, b): outputs 0..n*n-1 = X, n*n..n*n+n-1 = solution y of
// B y = rhs_S (b outside the block untouched); slots 0..n*n-1 = A, n*n.. = b.
func (r *linref) solveProblem(rhs []int) problem {
	n := r.n
	inv := r.inverseProblem()
	y := make([]float64, n)
	for i := 0; i < n; i++ {
		if r.pos[i] < 0 {
			y[i] = float64(rhs[i])
			continue
		}
		for k := 0; k < n; k++ {
			y[i] += r.xb(i, k) * float64(rhs[k])
		}
	}
	// yb: solution component usable in derivative formulas (0 outside block)
	yb := func(i int) float64 {
		if r.pos[i] < 0 {
			return 0
		}
		return y[i]
	}
	mag := r.xmax
	for _, v := range y {
		mag = math.Max(mag, math.Abs(v))
	}
	return problem{nslots: n*n + n, nout: n*n + n, kappa: r.kap, mag: mag,
		val: func(o int) float64 {
			if o < n*n {
				return inv.val(o)
			}
			return y[o-n*n]
		},
		g: func(o, s int) float64 {
			if o < n*n {
				if s < n*n {
					return inv.g(o, s)
				}
				return 0
			}
			i := o - n*n
			if s < n*n {
				k, l := s/n, s%n
				return -r.xb(i, k) * yb(l)
			}
			k := s - n*n
			if r.pos[i] < 0 {
				return delta(i, k) // untouched b entry is its own variable
			}
			return r.xb(i, k)
		},
		h: func(o, s, t int) float64 {
			if o < n*n {
				if s < n*n && t < n*n {
					return inv.h(o, s, t)
				}
				return 0
			}
			i := o - n*n
			switch {
			case s < n*n && t < n*n:
				k, l, p, q := s/n, s%n, t/n, t%n
				return r.xb(i, p)*r.xb(q, k)*yb(l) + r.xb(i, k)*r.xb(l, p)*yb(q)
			case s < n*n:
				k, l, p := s/n, s%n, t-n*n
				return -r.xb(i, k) * r.xb(l, p)
			case t < n*n:
				k, l, p := t/n, t%n, s-n*n
				return -r.xb(i, k) * r.xb(l, p)
			}
			return 0
		}}
}

// determinant (any matrix, also singular): det is multilinear in the entries, so
//
//	d det/dA_kl = cofactor C_kl, d2 det/dA_kl dA_pq = det(A+E_kl+E_pq)-det(A+E_kl)-det(A+E_pq)+det(A)
//
// exactly (0 for identical or same-row/column entries).
func detProblem(m exact.Mat) problem {
	n := m.N
	d0 := m.Det()
	cof := make([]float64, n*n)
	mag := math.Max(1, math.Abs(float64(d0)))
	for k := 0; k < n; k++ {
		for l := 0; l < n; l++ {
			cof[k*n+l] = float64(m.Cof(k, l))
			mag = math.Max(mag, math.Abs(cof[k*n+l]))
		}
	}
	hh := make([]float64, n*n*n*n)
	for s := 0; s < n*n; s++ {
		for t := 0; t < n*n; t++ {
			if s/n == t/n || s%n == t%n {
				continue
			}
			c := exact.Mat{N: n, V: append([]int64{}, m.V...)}
			c.V[s]++
			ds := c.Det()
			c.V[t]++
			dst := c.Det()
			c.V[s]--
			dt := c.Det()
			hh[s*n*n+t] = float64(dst - ds - dt + d0)
			mag = math.Max(mag, math.Abs(hh[s*n*n+t]))
		}
	}
	return problem{nslots: n * n, nout: 1, kappa: 1, mag: mag,
		val: func(int) float64 { return float64(d0) },
		g:   func(_, s int) float64 { return cof[s] },
		h:   func(_, s, t int) float64 { return hh[s*n*n+t] }}
}

// determinant through the inverse (regular A): used for the PD variants.
//
//	det:    g = det X_lk ; h = det (X_lk X_qp - X_qk X_lp)
//	logdet: g = X_lk     ; h = -X_lp X_qk
func (r *linref) detPDProblem(logScale bool) problem {
	n := r.n
	d := float64(r.det)
	if logScale {
		return problem{nslots: n * n, nout: 1, kappa: r.kap, mag: math.Max(r.xmax, math.Abs(math.Log(d))),
			val: func(int) float64 { return math.Log(d) },
			g:   func(_, s int) float64 { return r.xb(s%n, s/n) },
			h: func(_, s, t int) float64 {
				k, l, p, q := s/n, s%n, t/n, t%n
				return -r.xb(l, p) * r.xb(q, k)
			}}
	}
	return problem{nslots: n * n, nout: 1, kappa: r.kap, mag: math.Max(1, d) * r.xmax,
		val: func(int) float64 { return d },
		g:   func(_, s int) float64 { return d * r.xb(s%n, s/n) },
		h: func(_, s, t int) float64 {
			k, l, p, q := s/n, s%n, t/n, t%n
			return d * (r.xb(l, k)*r.xb(q, p) - r.xb(q, k)*r.xb(l, p))
		}}
}

// products. slots 0..n*n-1 = A (row major), n*n..n*n+n-1 = v.
func productProblem(kind string, m exact.Mat, v []int) problem {
	n := m.N
	A := func(i, j int) float64 { return float64(m.At(i, j)) }
	V := func(i int) float64 { return float64(v[i]) }
	mag := 1.0
	for _, x := range m.V {
		mag = math.Max(mag, math.Abs(float64(x)))
	}
	for _, x := range v {
		mag = math.Max(mag, math.Abs(float64(x)))
	}
	mag = mag * mag * float64(n)
	isA := func(s int) bool { return s < n*n }
	p := problem{nslots: n*n + n, kappa: 1, mag: mag}
	switch kind {
	case "MdotM:A*A":
		p.nout = n * n
		p.val = func(o int) float64 {
			s := 0.0
			for k := 0; k < n; k++ {
				s += A(o/n, k) * A(k, o%n)
			}
			return s
		}
		p.g = func(o, s int) float64 {
			if !isA(s) {
				return 0
			}
			i, j, k, l := o/n, o%n, s/n, s%n
			return delta(i, k)*A(l, j) + delta(l, j)*A(i, k)
		}
		p.h = func(o, s, t int) float64 {
			if !isA(s) || !isA(t) {
				return 0
			}
			i, j, k, l, pp, q := o/n, o%n, s/n, s%n, t/n, t%n
			return delta(i, k)*delta(l, pp)*delta(q, j) + delta(pp, i)*delta(q, k)*delta(l, j)
		}
	case "MdotM:A*At":
		p.nout = n * n
		p.val = func(o int) float64 {
			s := 0.0
			for k := 0; k < n; k++ {
				s += A(o/n, k) * A(o%n, k)
			}
			return s
		}
		p.g = func(o, s int) float64 {
			if !isA(s) {
				return 0
			}
			i, j, k, l := o/n, o%n, s/n, s%n
			return delta(i, k)*A(j, l) + delta(j, k)*A(i, l)
		}
		p.h = func(o, s, t int) float64 {
			if !isA(s) || !isA(t) {
				return 0
			}
			i, j, k, l, pp, q := o/n, o%n, s/n, s%n, t/n, t%n
			return delta(l, q) * (delta(i, k)*delta(j, pp) + delta(j, k)*delta(i, pp))
		}
	case "MdotV":
		p.nout = n
		p.val = func(i int) float64 {
			s := 0.0
			for l := 0; l < n; l++ {
				s += A(i, l) * V(l)
			}
			return s
		}
		p.g = func(i, s int) float64 {
			if isA(s) {
				return delta(i, s/n) * V(s%n)
			}
			return A(i, s-n*n)
		}
		p.h = func(i, s, t int) float64 {
			if isA(s) == isA(t) {
				return 0
			}
			if !isA(s) {
				s, t = t, s
			}
			return delta(i, s/n) * delta(s%n, t-n*n)
		}
	case "VdotM":
		p.nout = n
		p.val = func(j int) float64 {
			s := 0.0
			for k := 0; k < n; k++ {
				s += V(k) * A(k, j)
			}
			return s
		}
		p.g = func(j, s int) float64 {
			if isA(s) {
				return delta(j, s%n) * V(s/n)
			}
			return A(s-n*n, j)
		}
		p.h = func(j, s, t int) float64 {
			if isA(s) == isA(t) {
				return 0
			}
			if !isA(s) {
				s, t = t, s
			}
			return delta(j, s%n) * delta(s/n, t-n*n)
		}
	case "Outer": // r_ij = v_i * A_0j
		p.nout = n * n
		p.val = func(o int) float64 { return V(o/n) * A(0, o%n) }
		p.g = func(o, s int) float64 {
			i, j := o/n, o%n
			if isA(s) {
				return delta(s/n, 0) * delta(s%n, j) * V(i)
			}
			return delta(i, s-n*n) * A(0, j)
		}
		p.h = func(o, s, t int) float64 {
			if isA(s) == isA(t) {
				return 0
			}
			if !isA(s) {
				s, t = t, s
			}
			i, j := o/n, o%n
			return delta(s/n, 0) * delta(s%n, j) * delta(i, t-n*n)
		}
	}
	return p
}
