package main

// Independent second-order forward-mode reference ("jets"): value, gradient, Hessian
// with respect to N variables. Used (a) to evaluate differentiated defining equations
// of factorizations from the derivative slots of the library's outputs, (b) as the
// oracle for the Jacobian/Hessian helpers.

import (
	"math"

	ad "github.com/pbenner/autodiff"
)

type jet struct {
	v float64
	g []float64
	h [][]float64
}

// jetOrder: 2 (default) or 1. At order 1 the Hessian part is neither stored nor propagated
// (the value and gradient of every operation depend on values and gradients only, so the
// order-0 and order-1 parts are the same numbers either way); used for the defining
// equations of an order-1 run, whose order-2 part is not looked at.
var jetOrder = 2

func newJet(N int, v float64) jet {
	j := jet{v: v, g: make([]float64, N)}
	if jetOrder >= 2 {
		j.h = make([][]float64, N)
		buf := make([]float64, N*N)
		for i := range j.h {
			j.h[i] = buf[i*N : (i+1)*N : (i+1)*N]
		}
	}
	return j
}

func jetVar(N, i int, v float64) jet {
	j := newJet(N, v)
	j.g[i] = 1
	return j
}

// jetOf reads a library scalar (derivative slots up to the scalar's own order).
func jetOf(s ad.ConstScalar, N int) jet {
	j := newJet(N, s.GetFloat64())
	for a := 0; a < N; a++ {
		j.g[a] = d1(s, a)
		if j.h == nil {
			continue
		}
		for b := 0; b < N; b++ {
			j.h[a][b] = d2(s, a, b)
		}
	}
	return j
}

func (a jet) N() int { return len(a.g) }

// general dyadic rule: f(a,b) with partials fa, fb, faa, fab, fbb
func dy(a, b jet, f, fa, fb, faa, fab, fbb float64) jet {
	N := a.N()
	r := newJet(N, f)
	for i := 0; i < N; i++ {
		r.g[i] = fa*a.g[i] + fb*b.g[i]
		if r.h == nil {
			continue
		}
		for k := 0; k < N; k++ {
			r.h[i][k] = fa*a.h[i][k] + fb*b.h[i][k] + faa*a.g[i]*a.g[k] + fab*(a.g[i]*b.g[k]+a.g[k]*b.g[i]) + fbb*b.g[i]*b.g[k]
		}
	}
	return r
}
func mo(a jet, f, f1, f2 float64) jet {
	N := a.N()
	r := newJet(N, f)
	for i := 0; i < N; i++ {
		r.g[i] = f1 * a.g[i]
		if r.h == nil {
			continue
		}
		for k := 0; k < N; k++ {
			r.h[i][k] = f1*a.h[i][k] + f2*a.g[i]*a.g[k]
		}
	}
	return r
}
func (a jet) add(b jet) jet { return dy(a, b, a.v+b.v, 1, 1, 0, 0, 0) }
func (a jet) sub(b jet) jet { return dy(a, b, a.v-b.v, 1, -1, 0, 0, 0) }
func (a jet) mul(b jet) jet { return dy(a, b, a.v*b.v, b.v, a.v, 0, 1, 0) }
func (a jet) div(b jet) jet {
	return dy(a, b, a.v/b.v, 1/b.v, -a.v/(b.v*b.v), 0, -1/(b.v*b.v), 2*a.v/(b.v*b.v*b.v))
}
func (a jet) exp() jet { e := math.Exp(a.v); return mo(a, e, e, e) }
func (a jet) sin() jet { return mo(a, math.Sin(a.v), math.Cos(a.v), -math.Sin(a.v)) }

// maxAbs of value/gradient/Hessian up to the given order
func (a jet) maxAbs(order int) float64 {
	m := math.Abs(a.v)
	if order >= 1 {
		for _, x := range a.g {
			m = math.Max(m, math.Abs(x))
		}
	}
	if order >= 2 {
		for _, r := range a.h {
			for _, x := range r {
				m = math.Max(m, math.Abs(x))
			}
		}
	}
	return m
}

func (a jet) finite() bool {
	if math.IsNaN(a.v) || math.IsInf(a.v, 0) {
		return false
	}
	for _, x := range a.g {
		if math.IsNaN(x) || math.IsInf(x, 0) {
			return false
		}
	}
	for _, r := range a.h {
		for _, x := range r {
			if math.IsNaN(x) || math.IsInf(x, 0) {
				return false
			}
		}
	}
	return true
}

// jet matrices
type jmat struct {
	r, c int
	e    []jet
}

func newJmat(r, c, N int) jmat {
	m := jmat{r, c, make([]jet, r*c)}
	for i := range m.e {
		m.e[i] = newJet(N, 0)
	}
	return m
}
func (m jmat) at(i, j int) jet { return m.e[i*m.c+j] }
func (m jmat) T() jmat {
	t := jmat{m.c, m.r, make([]jet, len(m.e))}
	for i := 0; i < m.r; i++ {
		for j := 0; j < m.c; j++ {
			t.e[j*t.c+i] = m.at(i, j)
		}
	}
	return t
}
func (m jmat) mul(o jmat) jmat {
	N := m.e[0].N()
	p := newJmat(m.r, o.c, N)
	for i := 0; i < m.r; i++ {
		for j := 0; j < o.c; j++ {
			s := newJet(N, 0)
			for k := 0; k < m.c; k++ {
				s = s.add(m.at(i, k).mul(o.at(k, j)))
			}
			p.e[i*p.c+j] = s
		}
	}
	return p
}

// maxDiff: largest absolute difference of value (order 0), gradient (1), Hessian (2)
func (m jmat) maxDiff(o jmat, order int) (float64, int) {
	worst, wo := 0.0, 0
	for i := range m.e {
		a, b := m.e[i], o.e[i]
		if d := math.Abs(a.v - b.v); d > worst || math.IsNaN(d) {
			worst, wo = d, 0
			if math.IsNaN(d) {
				return math.Inf(1), 0
			}
		}
		if order >= 1 {
			for k := range a.g {
				d := math.Abs(a.g[k] - b.g[k])
				if math.IsNaN(d) {
					return math.Inf(1), 1
				}
				if d > worst {
					worst, wo = d, 1
				}
			}
		}
		if order >= 2 {
			for k := range a.h {
				for l := range a.h[k] {
					d := math.Abs(a.h[k][l] - b.h[k][l])
					if math.IsNaN(d) {
						return math.Inf(1), 2
					}
					if d > worst {
						worst, wo = d, 2
					}
				}
			}
		}
	}
	return worst, wo
}
