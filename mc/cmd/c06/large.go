package main

// Sizes 5 and 6 (thorough: 7 and 8). The full lattices stop at n=3, but a hand-specialised
// path may differ from the generic one only beyond a size threshold (an unrolled or blocked
// loop whose body is first entered at j>=4, a remainder loop, scratch storage shared between
// recursion levels, a pivot history longer than four rows). Structured families that are
// small enough to be enumerated completely for EVERY routine and option set:
//
//	general   every row permutation of unit upper-triangular templates (every pivot order),
//	          companion matrices in four orientations, the identity bordered by a row and a
//	          column (arrow), unit upper-triangular Toeplitz (UpperTriangular routines)
//	SPD       tridiagonal, pentadiagonal, arrowhead in both orientations (complete fill /
//	          no fill of the factor), Gram matrices B*B' of lower-triangular Toeplitz integer
//	          factors (dense; the Cholesky factor is B itself, every intermediate an integer)
//	symmetric tridiagonal with unit diagonal, the members that are not SPD (LDL+ForcePD)
//
// Entries stay small, so the fraction-free int64 reference remains exact (every minor is
// bounded by Hadamard's inequality far below 2^31; each matrix is cross-checked against the
// big.Rat elimination before use).
//
// family.large selects the activation patterns run on a member (see patterns()):
//
//	1  constant input only: magic (generic path) values = float (fast path) values
//	2  + all entries (and the vector) activated, order 1
//	3  + the same at order 2

import (
	"fmt"

	"verif/mc/cmd/c04/exact"
)

// masksFor: the Submatrix masks run on an n x n matrix. n<=4: all 2^n. n>=5: the full and the
// empty mask, every mask that excludes exactly one index, the two alternating masks, the
// leading and the trailing half.
func masksFor(n int) [][]bool {
	if n <= 4 {
		return allMasks(n)
	}
	var r [][]bool
	seen := map[string]bool{}
	add := func(f func(i int) bool) {
		m := make([]bool, n)
		for i := range m {
			m[i] = f(i)
		}
		if k := fmt.Sprint(m); !seen[k] {
			seen[k] = true
			r = append(r, m)
		}
	}
	add(func(int) bool { return true })
	for k := 0; k < n; k++ {
		k := k
		add(func(i int) bool { return i != k })
	}
	add(func(i int) bool { return i%2 == 0 })
	add(func(i int) bool { return i%2 == 1 })
	add(func(i int) bool { return i < (n+1)/2 })
	add(func(i int) bool { return i >= n/2 })
	add(func(int) bool { return false })
	return r
}

func ipow(b, e int) int64 {
	r := int64(1)
	for i := 0; i < e; i++ {
		r *= int64(b)
	}
	return r
}

// digits of idx in base len(alpha), mapped through alpha
func digits(idx int64, k int, alpha []int64) []int64 {
	r := make([]int64, k)
	for i := 0; i < k; i++ {
		r[i] = alpha[idx%int64(len(alpha))]
		idx /= int64(len(alpha))
	}
	return r
}

var tern = []int64{0, 1, -1}

// lvl: activation level per element type (see family.large), whether the Submatrix masks are
// run at that level, focus (see family.focus).
type lvl struct {
	r64, r32 int
	masks    bool
	focus    string
}

func (l lvl) String() string {
	d := [...]string{"not run", "values", "values+order1", "values+order1+order2"}
	s := "Real64:" + d[l.r64] + ",Real32:" + d[l.r32]
	if l.masks {
		s += ",masks too"
	}
	if l.focus != "" {
		s += ",derivatives of the " + l.focus + "-contract routines only"
	}
	return s
}

func largeFamily(name string, n int, count int64, kind string, l lvl, at func(i int64) exact.Mat) family {
	return family{name: name + " [" + l.String() + "]", n: n, count: count, at: at, kind: kind, elems: []string{"Real64", "Real32"},
		large: l.r64, large32: l.r32, maskDeriv: l.masks, focus: l.focus}
}

// ---- general families ------------------------------------------------------------

func upperTemplate(n int, which string) exact.Mat {
	u := exact.New(n)
	for i := 0; i < n; i++ {
		u.Set(i, i, 1)
		for j := i + 1; j < n; j++ {
			switch which {
			case "ones":
				u.Set(i, j, 1)
			case "bidiagonal":
				if j == i+1 {
					u.Set(i, j, 1)
				}
			case "alternating":
				if (i+j)%2 == 1 {
					u.Set(i, j, -1)
				} else {
					u.Set(i, j, 1)
				}
			}
		}
	}
	return u
}

// rowPermLarge: every row permutation of each unit upper-triangular template: the pivot search
// has exactly one candidate per column, so the n! matrices of a template realise every pivot
// order of size n.
func rowPermLarge(n int, templates []string, l lvl) family {
	perms := exact.Perms(n)
	np := int64(len(perms))
	return largeFamily(fmt.Sprintf("n=%d,every row permutation of unit upper-triangular templates %v", n, templates), n, np*int64(len(templates)), "general", l,
		func(i int64) exact.Mat {
			u := upperTemplate(n, templates[i/np])
			p := perms[i%np]
			m := exact.New(n)
			for r := 0; r < n; r++ {
				for c := 0; c < n; c++ {
					m.Set(r, c, u.At(p[r], c))
				}
			}
			return m
		})
}

// companionLarge: the companion matrix of x^n - c[n-1] x^(n-1) - ... - c[0] in four
// orientations, every coefficient vector over alpha (c[0] = 0: singular, only the routines
// defined there).
func companionLarge(n int, alpha []int64, l lvl) family {
	cnt := ipow(len(alpha), n)
	return largeFamily(fmt.Sprintf("n=%d,companion x4 orientations,coefficients=%v", n, alpha), n, 4*cnt, "general", l,
		func(i int64) exact.Mat {
			orient := i / cnt
			c := digits(i%cnt, n, alpha)
			m := exact.New(n)
			for k := 0; k+1 < n; k++ {
				m.Set(k+1, k, 1)
			}
			for k := 0; k < n; k++ {
				m.Set(k, n-1, c[k])
			}
			switch orient {
			case 1:
				m = m.T()
			case 2, 3:
				f := exact.New(n)
				for r := 0; r < n; r++ {
					for cc := 0; cc < n; cc++ {
						f.Set(r, cc, m.At(n-1-r, n-1-cc))
					}
				}
				m = f
				if orient == 3 {
					m = m.T()
				}
			}
			return m
		})
}

// borderedLarge: the identity bordered by a first row r and a first column c over {0,1} with
// corner d: det = d - r.c.
func borderedLarge(n int, corners []int64, l lvl) family {
	per := ipow(2, 2*(n-1))
	return largeFamily(fmt.Sprintf("n=%d,bordered identity,corner=%v,border{0,1}", n, corners), n, per*int64(len(corners)), "general", l,
		func(i int64) exact.Mat {
			d := corners[i/per]
			bits := i % per
			m := exact.New(n)
			m.Set(0, 0, d)
			for k := 1; k < n; k++ {
				m.Set(k, k, 1)
				m.Set(0, k, bits&1)
				bits >>= 1
				m.Set(k, 0, bits&1)
				bits >>= 1
			}
			return m
		})
}

// upperToeplitzLarge: unit upper-triangular Toeplitz matrices, first row (1, t1..t_{n-1}) over
// {0,1,-1} (UpperTriangular options and backSubstitution).
func upperToeplitzLarge(n int, l lvl) family {
	return largeFamily(fmt.Sprintf("n=%d,unit upper-triangular Toeplitz{0,1,-1}", n), n, ipow(3, n-1), "general", l,
		func(i int64) exact.Mat {
			t := digits(i, n-1, tern)
			m := exact.New(n)
			for r := 0; r < n; r++ {
				m.Set(r, r, 1)
				for c := r + 1; c < n; c++ {
					m.Set(r, c, t[c-r-1])
				}
			}
			return m
		})
}

// ---- symmetric positive definite families ----------------------------------------

// spdTridiagonal: diagonal 2, first off-diagonal entries over {0,1,-1}.
func spdTridiagonal(n int, kind string, l lvl) family {
	return largeFamily(fmt.Sprintf("n=%d,SPD tridiagonal,diag=2,off{0,1,-1}(%s)", n, kind), n, ipow(3, n-1), kind, l,
		func(i int64) exact.Mat {
			o := digits(i, n-1, tern)
			m := exact.New(n)
			for k := 0; k < n; k++ {
				m.Set(k, k, 2)
				if k+1 < n {
					m.Set(k, k+1, o[k])
					m.Set(k+1, k, o[k])
				}
			}
			return m
		})
}

// spdBanded: pentadiagonal, diagonal 5, first off-diagonal a constant a in {0,1,-1}, second
// off-diagonal entries over {0,1,-1} (strictly diagonally dominant).
func spdBanded(n int, l lvl) family {
	per := ipow(3, n-2)
	return largeFamily(fmt.Sprintf("n=%d,SPD pentadiagonal,diag=5,off1 constant{0,1,-1},off2{0,1,-1}", n), n, 3*per, "spd", l,
		func(i int64) exact.Mat {
			a := tern[i/per]
			o := digits(i%per, n-2, tern)
			m := exact.New(n)
			for k := 0; k < n; k++ {
				m.Set(k, k, 5)
				if k+1 < n {
					m.Set(k, k+1, a)
					m.Set(k+1, k, a)
				}
				if k+2 < n {
					m.Set(k, k+2, o[k])
					m.Set(k+2, k, o[k])
				}
			}
			return m
		})
}

// spdArrowhead: 2*I bordered by r over {0,1,-1} with corner n (Schur complement
// n - |r|^2/2 > 0); the border in the first row/column (the factor fills completely) or in
// the last one (no fill).
func spdArrowhead(n int, l lvl) family {
	per := ipow(3, n-1)
	return largeFamily(fmt.Sprintf("n=%d,SPD arrowhead,2I bordered{0,1,-1},corner=%d,first|last", n, n), n, 2*per, "spd", l,
		func(i int64) exact.Mat {
			last := i/per == 1
			r := digits(i%per, n-1, tern)
			m := exact.New(n)
			c := 0
			if last {
				c = n - 1
			}
			k := 0
			for j := 0; j < n; j++ {
				if j == c {
					m.Set(j, j, int64(n))
					continue
				}
				m.Set(j, j, 2)
				m.Set(c, j, r[k])
				m.Set(j, c, r[k])
				k++
			}
			return m
		})
}

// gramFactor: lower-triangular Toeplitz B, diagonal d, first column below the diagonal t.
func gramOf(n int, d int64, t []int64) exact.Mat {
	B := exact.New(n)
	for r := 0; r < n; r++ {
		B.Set(r, r, d)
		for c := 0; c < r; c++ {
			B.Set(r, c, t[r-c-1])
		}
	}
	G := exact.New(n)
	for i := 0; i < n; i++ {
		for j := 0; j < n; j++ {
			s := int64(0)
			for k := 0; k < n; k++ {
				s += B.At(i, k) * B.At(j, k)
			}
			G.Set(i, j, s)
		}
	}
	return G
}

// spdGram: B*B' for every lower-triangular Toeplitz B with diagonal d in diags and first
// column over {0,1,-1}: dense SPD matrices whose Cholesky factor is B (all intermediates of
// the factorisation are integers).
func spdGram(n int, diags []int64, kind string, l lvl) family {
	per := ipow(3, n-1)
	return largeFamily(fmt.Sprintf("n=%d,Gram B*B' of lower-triangular Toeplitz B,diag=%v,column{0,1,-1}(%s)", n, diags, kind), n, per*int64(len(diags)), kind, l,
		func(i int64) exact.Mat { return gramOf(n, diags[i/per], digits(i%per, n-1, tern)) })
}

// symTridiagonalAny: symmetric tridiagonal, unit diagonal, off-diagonal entries over
// {0,1,-2}; kind "sym-any" uses the members that are not SPD (cholesky LDL+ForcePD).
func symTridiagonalAny(n int, l lvl) family {
	alpha := []int64{0, 1, -2}
	return largeFamily(fmt.Sprintf("n=%d,symmetric tridiagonal,diag=1,off%v(members that are not SPD)", n, alpha), n, ipow(3, n-1), "sym-any", l,
		func(i int64) exact.Mat {
			o := digits(i, n-1, alpha)
			m := exact.New(n)
			for k := 0; k < n; k++ {
				m.Set(k, k, 1)
				if k+1 < n {
					m.Set(k, k+1, o[k])
					m.Set(k+1, k, o[k])
				}
			}
			return m
		})
}

// asymOf: SPD family with the strict upper triangle of every member replaced (variants 0: +ramp,
// 1: zero): the float paths read the lower triangle only, the generic path must do the same.
func asymOf(f family) family {
	g := f
	g.kind = "spd-asym"
	g.count = 2 * f.count
	g.name = f.name + " x strict upper triangle replaced (S+ramp, zero)"
	g.at = func(i int64) exact.Mat {
		S := f.at(i / 2)
		M := variantOf(S, i%2, nil)
		if M.IsSymmetric() {
			return exact.Mat{}
		}
		return M
	}
	return g
}

// largeFamilies: the families of sizes >= 5 per tier. Real32 is run where a hand-specialised
// Float32 path exists (Cholesky and what is built on it: the SPD and symmetric families); the
// general routines have a Float64 fast path only.
func largeFamilies(thorough bool) []family {
	a2 := []int64{0, 1}
	if thorough {
		all := lvl{3, 3, true, ""}
		o2 := lvl{3, 2, true, ""} // order 2 with Real64, order 1 with Real32
		o1 := lvl{2, 2, true, ""}
		g1 := lvl{2, 0, true, ""} // general routines (Float64 fast path only), order 1
		val := lvl{1, 1, false, ""}
		tpl := []string{"ones", "bidiagonal", "alternating"}
		return []family{
			// size 5: everything to order 2, both widths, masks included
			rowPermLarge(5, tpl, all), companionLarge(5, tern, all), borderedLarge(5, []int64{2, 1}, all), upperToeplitzLarge(5, all),
			spdTridiagonal(5, "spd", all), spdBanded(5, all), spdArrowhead(5, all), spdGram(5, []int64{1, 2}, "spd", all),
			asymOf(spdTridiagonal(5, "spd", all)), asymOf(spdGram(5, []int64{1, 2}, "spd", all)),
			symTridiagonalAny(5, val),
			// size 6: order 2 with Real64 on one family of each kind, order 1 on the others
			rowPermLarge(6, []string{"ones"}, lvl{3, 0, true, ""}), rowPermLarge(6, []string{"bidiagonal", "alternating"}, g1),
			companionLarge(6, tern, g1), borderedLarge(6, []int64{2, 1}, g1), upperToeplitzLarge(6, lvl{3, 0, true, ""}),
			spdTridiagonal(6, "spd", all), spdBanded(6, o1), spdArrowhead(6, o2), spdGram(6, []int64{1, 2}, "spd", o2),
			asymOf(spdTridiagonal(6, "spd", o1)), asymOf(spdGram(6, []int64{1, 2}, "spd", o1)),
			symTridiagonalAny(6, val),
			// sizes 7 and 8
			rowPermLarge(7, []string{"ones"}, lvl{2, 0, false, ""}),
			companionLarge(7, a2, g1), borderedLarge(7, []int64{2}, lvl{1, 0, false, ""}), upperToeplitzLarge(7, g1),
			spdTridiagonal(7, "spd", o1), spdBanded(7, o1), spdArrowhead(7, val),
			symTridiagonalAny(7, val),
			companionLarge(8, a2, lvl{1, 0, false, ""}), upperToeplitzLarge(8, lvl{2, 0, false, ""}),
			spdTridiagonal(8, "spd", lvl{2, 2, false, ""}), spdBanded(8, val), spdArrowhead(8, val),
			symTridiagonalAny(8, val),
		}
	}
	v64 := lvl{1, 0, false, ""} // general routines: values, Real64 against the Float64 fast path
	val := lvl{1, 1, false, ""} // values, both widths
	d1 := lvl{2, 0, false, ""}  // general routines + first derivatives
	s1 := lvl{2, 1, false, ""}  // SPD: first derivatives with Real64, values with Real32
	return []family{
		// size 5: derivatives to order 2 on one family per routine group, order 1 on the others
		rowPermLarge(5, []string{"ones"}, lvl{3, 0, false, ""}),
		rowPermLarge(5, []string{"bidiagonal", "alternating"}, v64),
		companionLarge(5, tern, d1), borderedLarge(5, []int64{2}, v64), upperToeplitzLarge(5, lvl{3, 0, false, "upper"}),
		spdGram(5, []int64{1}, "spd", lvl{3, 1, false, ""}), spdGram(5, []int64{2}, "spd", s1),
		spdTridiagonal(5, "spd", s1), spdBanded(5, s1), spdArrowhead(5, s1),
		asymOf(spdGram(5, []int64{1}, "spd", s1)),
		symTridiagonalAny(5, val),
		// size 6
		rowPermLarge(6, []string{"ones"}, v64),
		companionLarge(6, a2, v64), borderedLarge(6, []int64{2}, v64), upperToeplitzLarge(6, lvl{2, 0, false, "upper"}),
		spdGram(6, []int64{1}, "spd", s1), spdGram(6, []int64{2}, "spd", val),
		spdTridiagonal(6, "spd", s1), spdBanded(6, val), spdArrowhead(6, val),
		symTridiagonalAny(6, val),
	}
}
