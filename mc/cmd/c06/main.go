// C06: derivatives propagate through linear algebra; fast paths equal generic paths;
// Jacobian/Hessian helpers. Exhaustive small-scope enumeration of integer matrices x
// routine x option x activation pattern x order, oracle = analytic matrix calculus from
// the exact reference (package exact) or differentiated defining equations.
package main

import (
	"encoding/json"
	"fmt"
	"math"
	"strconv"
	"strings"

	ad "github.com/pbenner/autodiff"

	"verif/mc/cmd/c04/exact"
	"verif/mc/vf"
)

type Case struct {
	Routine string `json:"routine"`
	N       int    `json:"n,omitempty"`
	A       []int  `json:"a,omitempty"`
	Vec     []int  `json:"vec,omitempty"`
	Elem    string `json:"elem"`
	Opt     string `json:"opt,omitempty"`
	Mask    []bool `json:"mask,omitempty"`
	Act     string `json:"act,omitempty"`
	Order   int    `json:"order,omitempty"`
	// Jacobian/Hessian helper cases
	Recv string `json:"recv,omitempty"`
	Expr []int  `json:"expr,omitempty"`
	X    []int  `json:"x,omitempty"`
}

const tolC = 1024.0

// ---- activation patterns -------------------------------------------------------

func parse2(s string) (int, int) {
	p := strings.Split(s, ",")
	a, _ := strconv.Atoi(p[0])
	b, _ := strconv.Atoi(p[1])
	return a, b
}

func actOf(cs *Case) activation {
	n := cs.N
	a := activation{order: cs.Order}
	kind, arg, _ := strings.Cut(cs.Act, ":")
	switch kind {
	case "none", "":
	case "entry":
		i, j := parse2(arg)
		a.vars = [][]int{{i*n + j}}
	case "row":
		i, _ := strconv.Atoi(arg)
		for j := 0; j < n; j++ {
			a.vars = append(a.vars, []int{i*n + j})
		}
	case "urow": // part of row i on or above the diagonal
		i, _ := strconv.Atoi(arg)
		for j := i; j < n; j++ {
			a.vars = append(a.vars, []int{i*n + j})
		}
	case "full", "full+v":
		for s := 0; s < n*n; s++ {
			a.vars = append(a.vars, []int{s})
		}
		if kind == "full+v" {
			for i := 0; i < n; i++ {
				a.vars = append(a.vars, []int{n*n + i})
			}
		}
	case "upper":
		for i := 0; i < n; i++ {
			for j := i; j < n; j++ {
				a.vars = append(a.vars, []int{i*n + j})
			}
		}
	case "sym": // one variable carried by A_ij and A_ji
		i, j := parse2(arg)
		if i == j {
			a.vars = [][]int{{i*n + j}}
		} else {
			a.vars = [][]int{{i*n + j, j*n + i}}
		}
	case "sym-upper":
		for i := 0; i < n; i++ {
			for j := i; j < n; j++ {
				if i == j {
					a.vars = append(a.vars, []int{i*n + j})
				} else {
					a.vars = append(a.vars, []int{i*n + j, j*n + i})
				}
			}
		}
	default:
		panic("bad activation " + cs.Act)
	}
	return a
}

func actClass(act string) string {
	k, _, _ := strings.Cut(act, ":")
	return k
}

// ---- judging -------------------------------------------------------------------

type verdict struct {
	outcome string
	nontriv bool
	bad     string
	what    string
	class   string
	margin  float64 // worst err/tol ratio seen (diagnostic)
}

func regularClass(cs *Case, B exact.Mat) string {
	switch {
	case has(cs.Opt, "PD") || cs.Routine == "cholesky":
		return "spd"
	case has(cs.Opt, "UT"):
		return "triangular"
	case cs.Routine == "matrixInverse" || cs.Routine == "gaussJordan":
		p := B.PivotPerm()
		s := "pivot-cycles=" + exact.CycleType(p)
		if !exact.InterchangeConsistent(p) {
			s += ",perm!=interchange-seq"
		}
		return s
	case cs.Routine == "determinant":
		if B.Det() == 0 {
			return "singular"
		}
	}
	return "regular"
}

var floatCache = map[string]callResult{}

func floatRun(cs *Case) callResult {
	key := fmt.Sprint(cs.Routine, cs.N, cs.A, cs.Vec, cs.Opt, cs.Mask, floatOf(cs.Elem))
	if r, ok := floatCache[key]; ok {
		return r
	}
	if len(floatCache) > 256 {
		floatCache = map[string]callResult{}
	}
	r := call(cs, floatOf(cs.Elem), activation{})
	floatCache[key] = r
	return r
}

func isDefEq(r string) bool { return r == "cholesky" || r == "gramSchmidt" || r == "hessenberg" }

func judge(cs *Case) verdict {
	if cs.Routine == "Jacobian" || cs.Routine == "Hessian" {
		return judgeHelper(cs)
	}
	n := cs.N
	M := exact.FromInts(n, cs.A)
	u := unitRoundoff(cs.Elem)
	act := actOf(cs)
	var mask []bool
	if has(cs.Opt, "sub") {
		mask = cs.Mask
	}
	lr := newLinref(M, mask)
	needRegular := cs.Routine == "matrixInverse" || cs.Routine == "gaussJordan" || cs.Routine == "cholesky" || cs.Routine == "gramSchmidt" || (cs.Routine == "determinant" && has(cs.Opt, "PD"))
	if needRegular && lr.det == 0 {
		return verdict{outcome: "skip:singular"}
	}
	cls := regularClass(cs, lr.B) + ",act=" + actClass(cs.Act)
	if has(cs.Opt, "sub") {
		cls += ",masked"
	}
	var P problem
	switch cs.Routine {
	case "matrixInverse":
		P = lr.inverseProblem()
	case "gaussJordan":
		P = lr.solveProblem(cs.Vec)
	case "determinant":
		if has(cs.Opt, "PD") {
			P = lr.detPDProblem(has(cs.Opt, "log"))
		} else {
			P = detProblem(M)
		}
	case "cholesky", "gramSchmidt":
		P = problem{kappa: lr.kap, mag: math.Max(lr.xmax, M.NormInf())}
	case "hessenberg":
		P = problem{kappa: 1, mag: math.Max(1, M.NormInf())}
	default:
		P = productProblem(cs.Routine, M, cs.Vec)
	}

	rr := call(cs, cs.Elem, act)
	fr := floatRun(cs)
	if rr.ticked || fr.ticked {
		return verdict{outcome: "tick-budget", nontriv: true, bad: "TICK", what: "tick budget exceeded", class: cls}
	}
	if rr.loud() {
		return verdict{outcome: rr.label() + "-on-regular", nontriv: true, bad: rr.label() + "-on-regular", what: fmt.Sprintf("valid input rejected: err=%v panic=%v", rr.err, rr.pan), class: cls}
	}
	if fr.loud() {
		return verdict{outcome: "float-" + fr.label(), nontriv: true, bad: "fast-generic-outcome-differs", what: fmt.Sprintf("%s run rejected the input (err=%v panic=%v) but the %s run returned", floatOf(cs.Elem), fr.err, fr.pan, cs.Elem), class: cls}
	}
	if len(rr.out) != len(fr.out) {
		return verdict{outcome: "shape", nontriv: true, bad: "output-shape", what: "magic and float runs return different shapes", class: cls}
	}
	v := verdict{outcome: "ok", nontriv: true, class: cls}
	fail := func(bad, what string) verdict {
		v.outcome, v.bad, v.what = bad, bad, what
		return v
	}
	note := func(err, tol float64) bool {
		if math.IsNaN(err) {
			v.margin = math.Inf(1)
			return false
		}
		if r := err / tol; r > v.margin {
			v.margin = r
		}
		return err <= tol
	}
	// (i)+(iii) values of the magic (generic path) run == float (fast path) run
	tolFG := 64 * u * P.kappa * P.mag
	for o := range rr.out {
		a, b := rr.out[o].GetFloat64(), fr.out[o].GetFloat64()
		if cs.Routine == "cholesky" && !has(cs.Opt, "LDL") && (o%n) > (o/n) {
			continue // strict upper triangle of L is never written (caller buffer)
		}
		if cs.Routine == "cholesky" && has(cs.Opt, "LDL") {
			oo := o % (n * n)
			if o < n*n && (oo%n) > (oo/n) {
				continue
			}
		}
		if !note(math.Abs(a-b), tolFG) {
			return fail("magic-value!=float-value", fmt.Sprintf("output %d: %s run gives %v, %s run gives %v (tol %.3g)", o, cs.Elem, a, floatOf(cs.Elem), b, tolFG))
		}
	}
	N := act.N()
	if N == 0 {
		// constant input: nothing may carry a derivative (stale in-situ state must not leak)
		for o, s := range rr.out {
			if cs.Routine == "cholesky" && (o%(n*n))%n > (o%(n*n))/n && o < n*n {
				continue
			}
			for i := 0; i < s.GetN(); i++ {
				if d1(s, i) != 0 {
					return fail("stale-derivative-leak", fmt.Sprintf("output %d of a constant input carries derivative %v", o, d1(s, i)))
				}
				for j := 0; j < s.GetN(); j++ {
					if d2(s, i, j) != 0 {
						return fail("stale-derivative-leak", fmt.Sprintf("output %d of a constant input carries second derivative %v", o, d2(s, i, j)))
					}
				}
			}
		}
		return v
	}
	if isDefEq(cs.Routine) {
		return judgeDefEq(cs, M, lr, act, rr, u, v)
	}
	if len(rr.out) != P.nout {
		return fail("output-shape", fmt.Sprintf("%d outputs, expected %d", len(rr.out), P.nout))
	}
	tolV := tolC * u * P.kappa * P.mag
	tol1 := tolC * u * P.kappa * P.mag * P.mag
	tol2 := tolC * u * P.kappa * P.mag * P.mag * P.mag
	if tol1 > 0.02*P.mag*P.mag {
		// reference-side gate: too ill conditioned for this element type
		v.outcome = "ok:values-only(gated)"
		tol1, tol2 = math.Inf(1), math.Inf(1)
	}
	// values of all outputs first (a value-level failure is keyed with the pivot class)
	for o, s := range rr.out {
		if !note(math.Abs(s.GetFloat64()-P.val(o)), tolV) {
			return fail("value!=reference", fmt.Sprintf("output %d = %v, exact %v", o, s.GetFloat64(), P.val(o)))
		}
	}
	for o, s := range rr.out {
		for m := 0; m < N; m++ {
			want := 0.0
			for _, sl := range act.vars[m] {
				want += P.g(o, sl)
			}
			if got := d1(s, m); !note(math.Abs(got-want), tol1) {
				return fail("d1!=analytic", fmt.Sprintf("d output[%d]/d var%d(slots %v) = %v, analytic %v (tol %.3g)", o, m, act.vars[m], got, want, tol1))
			}
		}
		if act.order >= 2 {
			for m := 0; m < N; m++ {
				for m2 := 0; m2 < N; m2++ {
					want := 0.0
					for _, s1 := range act.vars[m] {
						for _, s2 := range act.vars[m2] {
							want += P.h(o, s1, s2)
						}
					}
					if got := d2(s, m, m2); !note(math.Abs(got-want), tol2) {
						return fail("d2!=analytic", fmt.Sprintf("d2 output[%d]/d var%d d var%d = %v, analytic %v (tol %.3g)", o, m, m2, got, want, tol2))
					}
				}
			}
		} else {
			for m := 0; m < s.GetN(); m++ {
				for m2 := 0; m2 < s.GetN(); m2++ {
					if d2(s, m, m2) != 0 {
						return fail("order1-carries-hessian", "order-1 run returns a second derivative")
					}
				}
			}
		}
	}
	return v
}

// judgeDefEq: differentiated defining equations evaluated in jet arithmetic from the
// outputs' own derivative slots:  L*L' = A, L*D*L' = A (L unit lower, D diagonal),
// Q*R = A with Q'Q = I and R upper triangular.
func judgeDefEq(cs *Case, M exact.Mat, lr *linref, act activation, rr callResult, u float64, v verdict) verdict {
	n := cs.N
	N := act.N()
	fail := func(bad, what string) verdict {
		v.outcome, v.bad, v.what = bad, bad, what
		return v
	}
	// jet of the input
	Aj := newJmat(n, n, N)
	for i := 0; i < n; i++ {
		for j := 0; j < n; j++ {
			Aj.e[i*n+j].v = float64(M.At(i, j))
		}
	}
	for m, slots := range act.vars {
		for _, s := range slots {
			Aj.e[s].g[m] = 1
		}
	}
	Ij := newJmat(n, n, N)
	for i := 0; i < n; i++ {
		Ij.e[i*n+i].v = 1
	}
	get := func(off int, lowerOnly, upperOnly, diagOnly bool) jmat {
		m := newJmat(n, n, N)
		for i := 0; i < n; i++ {
			for j := 0; j < n; j++ {
				if (lowerOnly && j > i) || (upperOnly && j < i) || (diagOnly && i != j) {
					continue
				}
				m.e[i*n+j] = jetOf(rr.out[off+i*n+j], N)
			}
		}
		return m
	}
	order := act.order
	scale := math.Max(1, M.NormInf())
	check := func(name string, lhs, rhs jmat, kpow float64) (verdict, bool) {
		tol := tolC * u * math.Pow(lr.kap, kpow) * scale * lr.xmax
		if kpow == 0 {
			tol = tolC * u * scale * 8
		}
		d, wo := lhs.maxDiff(rhs, order)
		if r := d / tol; r > v.margin {
			v.margin = r
		}
		if !(d <= tol) {
			return fail(name+fmt.Sprintf("(order-%d part)", wo), fmt.Sprintf("differentiated defining equation %s violated by %.3g (tol %.3g) in its order-%d part", name, d, tol, wo)), false
		}
		return v, true
	}
	switch cs.Routine {
	case "cholesky":
		if has(cs.Opt, "LDL") {
			if len(rr.out) != 2*n*n {
				return fail("output-shape", "LDL should return L and D")
			}
			L := get(0, true, false, false)
			D := get(n*n, false, false, true)
			Dfull := get(n*n, false, false, false)
			for i := 0; i < n; i++ {
				for j := 0; j < n; j++ {
					if i != j && Dfull.at(i, j).maxAbs(2) != 0 {
						return fail("LDL:D-not-diagonal", fmt.Sprintf("D[%d,%d] or its derivatives are nonzero", i, j))
					}
				}
			}
			for i := 0; i < n; i++ {
				if l := L.at(i, i); l.v != 1 || l.maxAbs(2) != 1 {
					return fail("LDL:unit-diagonal", fmt.Sprintf("L[%d,%d] is not the constant 1", i, i))
				}
			}
			if r, ok := check("L*D*L'=A", L.mul(D).mul(L.T()), Aj, 2); !ok {
				return r
			}
		} else {
			if len(rr.out) != n*n {
				return fail("output-shape", "cholesky should return L")
			}
			L := get(0, true, false, false)
			if r, ok := check("L*L'=A", L.mul(L.T()), Aj, 2); !ok {
				return r
			}
		}
	case "hessenberg":
		// A = U*H*U', U'U = I, H upper Hessenberg (orthogonal similarity: no conditioning factor)
		if len(rr.out) != 2*n*n {
			return fail("output-shape", "hessenbergReduction should return H and U")
		}
		H := get(0, false, false, false)
		U := get(n*n, false, false, false)
		for i := 0; i < n; i++ {
			for j := 0; j+1 < i; j++ {
				if H.at(i, j).maxAbs(2) != 0 {
					return fail("H-not-hessenberg", fmt.Sprintf("H[%d,%d] or its derivatives are nonzero", i, j))
				}
			}
		}
		if r, ok := check("U*H*U'=A", U.mul(H).mul(U.T()), Aj, 0); !ok {
			return r
		}
		if r, ok := check("U'U=I", U.T().mul(U), Ij, 0); !ok {
			return r
		}
	case "gramSchmidt":
		if len(rr.out) != 2*n*n {
			return fail("output-shape", "gramSchmidt should return Q and R")
		}
		Q := get(0, false, false, false)
		R := get(n*n, false, true, false)
		Rfull := get(n*n, false, false, false)
		for i := 0; i < n; i++ {
			for j := 0; j < i; j++ {
				if Rfull.at(i, j).maxAbs(2) != 0 {
					return fail("R-not-upper-triangular", fmt.Sprintf("R[%d,%d] or its derivatives are nonzero", i, j))
				}
			}
		}
		if r, ok := check("Q*R=A", Q.mul(R), Aj, 3); !ok {
			return r
		}
		if r, ok := check("Q'Q=I", Q.T().mul(Q), Ij, 3); !ok {
			return r
		}
	}
	return v
}

func keyOf(cs *Case, v verdict) string {
	if cs.Routine == "Jacobian" || cs.Routine == "Hessian" {
		return cs.Routine + "|recv=" + cs.Recv + "|x=" + cs.Elem + "|" + v.class + "|" + v.bad
	}
	opt := cs.Opt
	if opt == "" {
		opt = "default"
	}
	pre := ""
	if v.bad == "TICK" {
		pre = "TICK|"
	}
	// the activation pattern and order are part of the violation text and of the replay
	// case; in the key they would multiply one defect into hundreds of keys
	cls := v.class
	if i := strings.Index(cls, ",act="); i >= 0 {
		rest := ""
		if strings.HasSuffix(cls, ",masked") {
			rest = ",masked"
		}
		cls = cls[:i] + rest
	}
	valueLevel := v.bad == "value!=reference" || v.bad == "magic-value!=float-value" || strings.HasSuffix(v.bad, "-on-regular") || v.bad == "fast-generic-outcome-differs"
	if !valueLevel && strings.HasPrefix(cls, "pivot-cycles") {
		// derivative-level failures do not depend on the pivot order class
		rest := ""
		if strings.HasSuffix(cls, ",masked") {
			rest = ",masked"
		}
		cls = "regular" + rest
	}
	k := pre + cs.Routine + "|opt=" + opt + "|elem=" + cs.Elem + "|" + cls
	if v.bad != "TICK" {
		k += "|" + v.bad
	}
	return k
}

// ---- enumeration ---------------------------------------------------------------

func allMasks(n int) [][]bool {
	var r [][]bool
	for m := 0; m < 1<<n; m++ {
		b := make([]bool, n)
		for i := 0; i < n; i++ {
			b[i] = m&(1<<i) != 0
		}
		r = append(r, b)
	}
	return r
}

func ramp(n int) []int {
	r := make([]int, n)
	for i := range r {
		r[i] = i + 1
	}
	return r
}

type actOrd struct {
	act   string
	order int
}

// patterns: activation x order list. kind: "general" | "upper" | "sym"
func patterns(n int, kind string, symmetricInput, withV bool, light bool) []actOrd {
	var acts []string
	switch kind {
	case "general":
		for i := 0; i < n; i++ {
			for j := 0; j < n; j++ {
				acts = append(acts, fmt.Sprintf("entry:%d,%d", i, j))
			}
		}
		for i := 0; i < n; i++ {
			acts = append(acts, fmt.Sprintf("row:%d", i))
		}
		acts = append(acts, "full")
		if withV {
			acts = append(acts, "full+v")
		}
		if symmetricInput && n > 1 {
			acts = append(acts, "sym-upper")
		}
	case "upper":
		for i := 0; i < n; i++ {
			for j := i; j < n; j++ {
				acts = append(acts, fmt.Sprintf("entry:%d,%d", i, j))
			}
		}
		for i := 0; i < n; i++ {
			acts = append(acts, fmt.Sprintf("urow:%d", i))
		}
		acts = append(acts, "upper")
	case "sym":
		for i := 0; i < n; i++ {
			for j := i; j < n; j++ {
				acts = append(acts, fmt.Sprintf("sym:%d,%d", i, j))
			}
		}
		acts = append(acts, "sym-upper")
	}
	var r []actOrd
	for _, a := range acts {
		big := strings.HasPrefix(a, "full") || a == "upper" || a == "sym-upper"
		if light {
			// n=3 in the quick tier: order 2 everywhere (it carries the first derivatives
			// too), order 1 additionally for the large patterns
			r = append(r, actOrd{a, 2})
			if big {
				r = append(r, actOrd{a, 1})
			}
		} else {
			r = append(r, actOrd{a, 1}, actOrd{a, 2})
		}
	}
	return r
}

// casesFor lists every configuration run on matrix m. spdFamily: m comes from the
// symmetric lattice and only the SPD-specific routines are run.
func casesFor(m exact.Mat, spdFamily, light, sparse bool, elems []string) []Case {
	n := m.N
	A := m.Ints()
	var cs []Case
	det := m.Det()
	upper := m.IsUpper()
	sym := m.IsSymmetric()
	for _, e := range elems {
		add := func(routine, opt string, mask []bool, vec []int, ps []actOrd) {
			for _, p := range ps {
				if k := actClass(p.act); sparse && (k == "row" || k == "urow" || k == "sym-upper") {
					continue
				}
				cs = append(cs, Case{Routine: routine, N: n, A: A, Vec: vec, Elem: e, Opt: opt, Mask: mask, Act: p.act, Order: p.order})
			}
		}
		none := []actOrd{{"none", 0}}
		if spdFamily {
			if !m.IsSPD() {
				continue
			}
			ps := patterns(n, "sym", true, false, light)
			for _, o := range []string{"PD", "PD+insitu"} {
				add("matrixInverse", o, nil, nil, ps)
			}
			add("matrixInverse", "PD+insitu", nil, nil, none)
			for _, o := range []string{"PD", "PD+log", "PD+insitu", "PD+log+insitu"} {
				add("determinant", o, nil, nil, ps)
			}
			add("determinant", "PD+log+insitu", nil, nil, none)
			for _, o := range []string{"", "insitu", "LDL", "LDL+insitu"} {
				add("cholesky", o, nil, nil, ps)
			}
			add("cholesky", "insitu", nil, nil, none)
			add("cholesky", "LDL+insitu", nil, nil, none)
			for _, mk := range allMasks(n) {
				add("matrixInverse", "PD+sub", mk, nil, []actOrd{{"sym-upper", 2}})
			}
			continue
		}
		gen := patterns(n, "general", sym, false, light)
		genV := patterns(n, "general", sym, true, light)
		for _, r := range []string{"MdotM:A*A", "MdotM:A*At"} {
			add(r, "", nil, nil, gen)
		}
		for _, r := range []string{"MdotV", "VdotM", "Outer"} {
			add(r, "", nil, ramp(n), genV)
		}
		add("determinant", "", nil, nil, gen)
		// Householder reflectors are not differentiable where the eliminated tail is zero
		if n < 3 || m.At(2, 0) != 0 {
			add("hessenberg", "", nil, nil, gen)
		}
		if det != 0 {
			add("matrixInverse", "", nil, nil, gen)
			add("matrixInverse", "insitu", nil, nil, gen)
			add("matrixInverse", "insitu", nil, nil, none)
			add("gaussJordan", "", nil, ramp(n), genV)
			add("gramSchmidt", "", nil, nil, gen)
		}
		for _, mk := range allMasks(n) {
			add("matrixInverse", "sub", mk, nil, []actOrd{{"full", 2}})
			add("gaussJordan", "sub", mk, ramp(n), []actOrd{{"full+v", 2}})
		}
		if upper && det != 0 {
			up := patterns(n, "upper", false, false, light)
			add("matrixInverse", "UT", nil, nil, up)
			add("matrixInverse", "UT+insitu", nil, nil, up)
			add("gaussJordan", "UT", nil, ramp(n), up)
		}
	}
	return cs
}

type family struct {
	name  string
	n     int
	count int64
	at    func(i int64) exact.Mat
	spd   bool
	light bool
	elems []string
	// sparse: only single-entry and full activation patterns (large thorough lattice)
	sparse bool
}

func lattice(n int, alpha []int64, light bool, elems []string) family {
	return family{name: fmt.Sprintf("n=%d,entries=%v", n, alpha), n: n, count: exact.LatticeCount(n, alpha), at: func(i int64) exact.Mat { return exact.LatticeAt(n, alpha, i) }, light: light, elems: elems}
}

func symLattice(n int, alpha []int64, light bool, elems []string) family {
	ne := n * (n + 1) / 2
	cnt := int64(1)
	for i := 0; i < ne; i++ {
		cnt *= int64(len(alpha))
	}
	k := int64(len(alpha))
	return family{fmt.Sprintf("n=%d,symmetric,entries=%v(SPD members)", n, alpha), n, cnt, func(i int64) exact.Mat {
		m := exact.New(n)
		for r := 0; r < n; r++ {
			for c := r; c < n; c++ {
				m.Set(r, c, alpha[i%k])
				m.Set(c, r, alpha[i%k])
				i /= k
			}
		}
		return m
	}, true, light, elems, false}
}

func sumAbs(m exact.Mat) int64 {
	s := int64(0)
	for _, v := range m.V {
		if v < 0 {
			v = -v
		}
		s += v
	}
	return s
}

func marginBucket(r float64) string {
	switch {
	case r == 0:
		return "exact"
	case r < 1e-3:
		return "<1e-3"
	case r < 1e-2:
		return "<1e-2"
	case r < 1e-1:
		return "<1e-1"
	case r <= 1:
		return "<=1"
	}
	return ">1"
}

func explore(c *vf.Ctx, fams []family) {
	var gidx int64
	for fi, f := range fams {
		for i := int64(0); i < f.count; i++ {
			gidx++
			if !c.Mine(gidx) {
				continue
			}
			m := f.at(i)
			if msg := m.CrossCheck(); msg != "" {
				c.HarnessError("reference self-check: " + msg)
				return
			}
			cases := casesFor(m, f.spd, f.light, f.sparse, f.elems)
			if len(cases) > 0 {
				c.Count("matrices:"+f.name, 1)
			}
			for k := range cases {
				cs := &cases[k]
				rank := int64(fi)*1e15 + sumAbs(m)*1e12 + i*10000 + int64(k)
				c.Guard(cs.Routine+"|"+cs.Opt+"|"+cs.Elem, rank, cs)
				v := judge(cs)
				c.Eval(1)
				if v.nontriv {
					c.Nontrivial(1)
				}
				c.Outcome(cs.Routine + "|" + cs.Opt + "|" + actClass(cs.Act) + "|" + v.outcome)
				c.Count("outcome:"+cs.Routine+":"+v.outcome, 1)
				if v.nontriv {
					c.Count("margin(err/tol):"+cs.Elem+":"+marginBucket(v.margin), 1)
				}
				if v.bad != "" {
					c.Violate(keyOf(cs, v), fmt.Sprintf("%s(%s) %s A=%v mask=%v vec=%v act=%s order=%d: %s", cs.Routine, cs.Opt, cs.Elem, m, cs.Mask, cs.Vec, cs.Act, cs.Order, v.what), rank, cs)
				}
				if gidx%4099 == 0 && k == 7 {
					c.Sample(cs)
				}
			}
		}
	}
}

func main() {
	vf.Main(vf.Spec{
		ID:    "C06",
		Level: "exploration",
		Rule: "every integer matrix of the stated lattices x routine (MdotM, MdotV, VdotM, Outer, matrixInverse, gaussJordan solve, determinant naive/PD/log, cholesky/LDL, gramSchmidt, hessenbergReduction with U) x option set admissible for the matrix (exact SPD / triangular / regular tests) x element type (Real64, Real32) " +
			"x activation pattern (every single entry, every row, full matrix, full matrix + vector, symmetric upper triangle with A_ij and A_ji carrying the same variable; for UpperTriangular options only entries on or above the diagonal) x order 1,2; " +
			"each case runs the routine on the magic type and on the plain float type (fast path) and compares values, then compares every first and second derivative slot of every output with analytic matrix calculus from the exact inverse/cofactors " +
			"(or evaluates the differentiated defining equation in an independent jet arithmetic); in-situ buffers are pre-filled with stale values and derivative state; Jacobian/Hessian helpers: every expression of a depth-2 family x point lattice x receiver type x argument type against an independent jet evaluation",
		Assume: []string{
			"tolerances: values 1024*u*kappa*scale, fast-vs-generic 64*u*kappa*scale, derivatives 1024*u*kappa*scale^(order+1); derivative comparison gated (values only) when 1024*u*kappa > 0.02 for the element type",
			"PositiveDefinite/Cholesky routines are differentiated only along symmetric perturbations (A_ij and A_ji share the variable)",
			"stale in-situ buffers carry the same number of variables and order as the input (what a previous call with the same variables leaves behind), or a foreign state when the input is constant",
			"singular inputs are not differentiated (C04 judges them)",
		},
		Run: func(c *vf.Ctx) {
			a5 := []int64{0, 1, -1, 2, -2}
			a3 := []int64{0, 1, -1}
			both := []string{"Real64", "Real32"}
			var fams []family
			if c.Thorough() {
				// large lattice: Real64, order 2 (+ order 1 for the full pattern), single-entry and full activation
				big := lattice(3, []int64{0, 1, -1, 2}, true, []string{"Real64"})
				big.sparse = true
				fams = []family{lattice(1, a5, false, both), lattice(2, a5, false, both), lattice(3, a3, false, both),
					symLattice(1, a5, false, both), symLattice(2, a5, false, both), symLattice(3, a5, false, both),
					big}
			} else {
				fams = []family{lattice(1, a5, false, both), lattice(2, a5, false, both), lattice(3, a3, true, []string{"Real64"}),
					symLattice(1, a5, false, both), symLattice(2, a5, false, both), symLattice(3, a5, true, both)}
			}
			explore(c, fams)
			exploreHelpers(c)
		},
		Replay: func(c *vf.Ctx, raw json.RawMessage) {
			var cs Case
			if err := json.Unmarshal(raw, &cs); err != nil {
				c.HarnessError(err.Error())
				return
			}
			v := judge(&cs)
			if v.bad != "" {
				c.Violate(keyOf(&cs, v), v.what, 0, cs)
			}
		},
	})
}

var _ = ad.Float64Type
