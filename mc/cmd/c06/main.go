// C06: derivatives propagate through linear algebra; fast paths equal generic paths;
// Jacobian/Hessian helpers. Exhaustive small-scope enumeration of integer matrices x
// routine x option x activation pattern x order, oracle = analytic matrix calculus from
// the exact reference (package exact) or differentiated defining equations.
package main

import (
	"encoding/json"
	"fmt"
	"math"
	"os"
	"runtime/pprof"
	"strconv"
	"strings"
	"time"

	ad "github.com/pbenner/autodiff"

	"verif/mc/cmd/c04/exact"
	"verif/mc/vf"
)

type Case struct {
	Routine string `json:"routine"`
	N       int    `json:"n,omitempty"`
	A       []int  `json:"a,omitempty"`
	Vec     []int  `json:"vec,omitempty"`
	Elem    string `json:"elem"`
	Opt     string `json:"opt,omitempty"`
	Mask    []bool `json:"mask,omitempty"`
	Act     string `json:"act,omitempty"`
	Order   int    `json:"order,omitempty"`
	// Jacobian/Hessian helper cases
	Recv string `json:"recv,omitempty"`
	Expr []int  `json:"expr,omitempty"`
	X    []int  `json:"x,omitempty"`
}

const tolC = 1024.0

// ---- activation patterns -------------------------------------------------------

func parse2(s string) (int, int) {
	p := strings.Split(s, ",")
	a, _ := strconv.Atoi(p[0])
	b, _ := strconv.Atoi(p[1])
	return a, b
}

func actOf(cs *Case) activation {
	n := cs.N
	a := activation{order: cs.Order}
	kind, arg, _ := strings.Cut(cs.Act, ":")
	switch kind {
	case "none", "":
	case "entry":
		i, j := parse2(arg)
		a.vars = [][]int{{i*n + j}}
	case "row":
		i, _ := strconv.Atoi(arg)
		for j := 0; j < n; j++ {
			a.vars = append(a.vars, []int{i*n + j})
		}
	case "urow": // part of row i on or above the diagonal
		i, _ := strconv.Atoi(arg)
		for j := i; j < n; j++ {
			a.vars = append(a.vars, []int{i*n + j})
		}
	case "full", "full+v":
		for s := 0; s < n*n; s++ {
			a.vars = append(a.vars, []int{s})
		}
		if kind == "full+v" {
			for i := 0; i < n; i++ {
				a.vars = append(a.vars, []int{n*n + i})
			}
		}
	case "upper":
		for i := 0; i < n; i++ {
			for j := i; j < n; j++ {
				a.vars = append(a.vars, []int{i*n + j})
			}
		}
	case "lower": // strict lower triangle + diagonal, every entry its own variable
		for i := 0; i < n; i++ {
			for j := 0; j <= i; j++ {
				a.vars = append(a.vars, []int{i*n + j})
			}
		}
	case "supper": // strict upper triangle only
		for i := 0; i < n; i++ {
			for j := i + 1; j < n; j++ {
				a.vars = append(a.vars, []int{i*n + j})
			}
		}
	case "sym": // one variable carried by A_ij and A_ji
		i, j := parse2(arg)
		if i == j {
			a.vars = [][]int{{i*n + j}}
		} else {
			a.vars = [][]int{{i*n + j, j*n + i}}
		}
	case "sym-upper":
		for i := 0; i < n; i++ {
			for j := i; j < n; j++ {
				if i == j {
					a.vars = append(a.vars, []int{i*n + j})
				} else {
					a.vars = append(a.vars, []int{i*n + j, j*n + i})
				}
			}
		}
	default:
		panic("bad activation " + cs.Act)
	}
	return a
}

func actClass(act string) string {
	k, _, _ := strings.Cut(act, ":")
	return k
}

// ---- judging -------------------------------------------------------------------

type verdict struct {
	outcome string
	nontriv bool
	bad     string
	what    string
	class   string
	margin  float64 // worst err/tol ratio seen (diagnostic)
	rmap    string  // observed read map of the float path (structured-input routines)
}

func regularClass(cs *Case, B exact.Mat) string {
	switch {
	case has(cs.Opt, "PD") || cs.Routine == "cholesky":
		return "spd"
	case has(cs.Opt, "UT") || cs.Routine == "backSubstitution":
		return "triangular"
	case cs.Routine == "matrixInverse" || cs.Routine == "gaussJordan":
		p := B.PivotPerm()
		s := "pivot-cycles=" + exact.CycleType(p)
		if cs.N >= 5 {
			// sizes >= 5 have dozens of cycle types: one defect must not give dozens of keys
			s = "pivot-order=identity"
			for i, pi := range p {
				if pi != i {
					s = "pivot-order=permuted"
				}
			}
		}
		if !exact.InterchangeConsistent(p) {
			s += ",perm!=interchange-seq"
		}
		return s
	case cs.Routine == "determinant":
		if B.Det() == 0 {
			return "singular"
		}
	}
	return "regular"
}

var floatCache = map[string]callResult{}

func floatRun(cs *Case) callResult {
	key := fmt.Sprint(cs.Routine, cs.N, cs.A, cs.Vec, cs.Opt, cs.Mask, floatOf(cs.Elem))
	if r, ok := floatCache[key]; ok {
		return r
	}
	if len(floatCache) > 256 {
		floatCache = map[string]callResult{}
	}
	r := call(cs, floatOf(cs.Elem), activation{})
	floatCache[key] = r
	return r
}

func isDefEq(r string) bool { return r == "cholesky" || r == "gramSchmidt" || r == "hessenberg" }

// skipOut: outputs the routine never writes (they keep what the caller's buffer held):
// the strict upper triangle of the Cholesky factor L.
func skipOut(cs *Case, o int) bool {
	n := cs.N
	return cs.Routine == "cholesky" && o < n*n && (o%n) > (o/n)
}

func judge(cs *Case) verdict {
	if cs.Routine == "Jacobian" || cs.Routine == "Hessian" {
		return judgeHelper(cs)
	}
	n := cs.N
	M := exact.FromInts(n, cs.A)
	u := unitRoundoff(cs.Elem)
	act := actOf(cs)
	var mask []bool
	if has(cs.Opt, "sub") {
		mask = cs.Mask
	}
	// the function of the n*n stored entries that the float path computes: g(R(M))
	contract := contractOf(cs)
	forcePD := cs.Routine == "cholesky" && has(cs.Opt, "ForcePD")
	rm := decideMap(cs)
	Meff := rm.effective(M)
	eff := rm.effAct(n, act)
	asym := (contract == "sym" && !M.IsSymmetric()) || (contract == "upper" && !M.IsUpper())
	valuesOnly := ""
	switch {
	case forcePD:
	case contract == "sym":
		if rm == mapBoth {
			if !asym {
				if !symmetricAct(n, act) {
					return verdict{outcome: "skip:no-reference(float path reads both triangles)"}
				}
			} else {
				// no single effective matrix: fast path against generic path only
				valuesOnly = "ok:values-only(float path reads both triangles)"
				lo, up := mapSymLower.effective(M), mapSymUpper.effective(M)
				switch {
				case lo.IsSPD() && up.IsSPD():
					Meff = lo
					if newLinref(up, mask).kap > newLinref(lo, mask).kap {
						Meff = up
					}
				case lo.IsSPD():
					Meff = lo
				default:
					Meff = up
				}
			}
		}
		if !Meff.IsSPD() {
			return verdict{outcome: "skip:effective-input-not-spd"}
		}
	case contract == "upper":
		if !Meff.IsUpper() {
			return verdict{outcome: "skip:not-triangular(float path reads the strict lower triangle)"}
		}
	}
	lr := newLinref(Meff, mask)
	needRegular := cs.Routine == "matrixInverse" || cs.Routine == "gaussJordan" || cs.Routine == "backSubstitution" || (cs.Routine == "cholesky" && !forcePD) || cs.Routine == "gramSchmidt" || (cs.Routine == "determinant" && has(cs.Opt, "PD"))
	if needRegular && lr.det == 0 {
		return verdict{outcome: "skip:singular"}
	}
	cls := regularClass(cs, lr.B)
	if forcePD && !Meff.IsSPD() {
		cls = "symmetric-not-spd"
	}
	if asym {
		cls += ",triangles-differ"
	}
	cls += ",act=" + actClass(cs.Act)
	if has(cs.Opt, "sub") {
		cls += ",masked"
	}
	var P problem
	switch cs.Routine {
	case "matrixInverse":
		P = lr.inverseProblem()
	case "gaussJordan":
		P = lr.solveProblem(cs.Vec)
	case "backSubstitution":
		sp := lr.solveProblem(cs.Vec)
		P = problem{nslots: sp.nslots, nout: n, kappa: sp.kappa, mag: sp.mag,
			val: func(o int) float64 { return sp.val(n*n + o) },
			g:   func(o, s int) float64 { return sp.g(n*n+o, s) },
			h:   func(o, s, t int) float64 { return sp.h(n*n+o, s, t) }}
	case "determinant":
		if has(cs.Opt, "PD") {
			P = lr.detPDProblem(has(cs.Opt, "log"))
		} else {
			P = detProblem(M)
		}
	case "cholesky", "gramSchmidt":
		P = problem{kappa: lr.kap, mag: math.Max(lr.xmax, Meff.NormInf())}
	case "hessenberg":
		P = problem{kappa: 1, mag: math.Max(1, M.NormInf())}
	default:
		P = productProblem(cs.Routine, M, cs.Vec)
	}

	rr := call(cs, cs.Elem, act)
	fr := floatRun(cs)
	if rr.ticked || fr.ticked {
		return verdict{outcome: "tick-budget", nontriv: true, bad: "TICK", what: "tick budget exceeded", class: cls}
	}
	if rr.loud() {
		return verdict{outcome: rr.label() + "-on-regular", nontriv: true, bad: rr.label() + "-on-regular", what: fmt.Sprintf("valid input rejected: err=%v panic=%v", rr.err, rr.pan), class: cls}
	}
	if fr.loud() {
		return verdict{outcome: "float-" + fr.label(), nontriv: true, bad: "fast-generic-outcome-differs", what: fmt.Sprintf("%s run rejected the input (err=%v panic=%v) but the %s run returned", floatOf(cs.Elem), fr.err, fr.pan, cs.Elem), class: cls}
	}
	if len(rr.out) != len(fr.out) {
		return verdict{outcome: "shape", nontriv: true, bad: "output-shape", what: "magic and float runs return different shapes", class: cls}
	}
	v := verdict{outcome: "ok", nontriv: true, class: cls}
	if contract != "" {
		v.rmap = contract + " contract, float path reads " + rm.String()
	}
	fail := func(bad, what string) verdict {
		v.outcome, v.bad, v.what = bad, bad, what
		return v
	}
	note := func(err, tol float64) bool {
		if math.IsNaN(err) {
			v.margin = math.Inf(1)
			return false
		}
		if r := err / tol; r > v.margin {
			v.margin = r
		}
		return err <= tol
	}
	N := act.N()
	// a variable carried only by entries the float function does not read: no output may
	// depend on it. Exactly zero, except with caller-supplied in-situ buffers: the stale
	// derivative state they are pre-filled with legitimately meets rounding residues
	// (x - x*c/c) in the never-written triangle of L; there the reference value 0 is
	// compared within the usual tolerance below.
	unread := func(m int) bool { return len(act.vars[m]) > 0 && len(eff.vars[m]) == 0 }
	checkUnread := func() (verdict, bool) {
		if has(cs.Opt, "insitu") {
			return v, true
		}
		for m := 0; m < N; m++ {
			if !unread(m) {
				continue
			}
			for o, s := range rr.out {
				if skipOut(cs, o) {
					continue
				}
				bad := d1(s, m) != 0
				for m2 := 0; m2 < N && !bad; m2++ {
					bad = d2(s, m, m2) != 0 || d2(s, m2, m) != 0
				}
				if bad {
					return fail("derivative-wrt-unread-entry", fmt.Sprintf("output %d carries a derivative (first %v) with respect to var%d(slots %v): the %s function reads only %v and does not depend on it", o, d1(s, m), m, act.vars[m], floatOf(cs.Elem), rm)), false
				}
			}
		}
		return v, true
	}
	if forcePD {
		return judgeForcePD(cs, Meff, lr, rm, act, eff, rr, fr, u, v, checkUnread)
	}
	// (i)+(iii) values of the magic (generic path) run == float (fast path) run
	tolFG := 64 * u * P.kappa * P.mag
	for o := range rr.out {
		if skipOut(cs, o) {
			continue
		}
		a, b := rr.out[o].GetFloat64(), fr.out[o].GetFloat64()
		if !note(math.Abs(a-b), tolFG) {
			return fail("magic-value!=float-value", fmt.Sprintf("output %d: %s run gives %v, %s run gives %v (tol %.3g; float path reads %v)", o, cs.Elem, a, floatOf(cs.Elem), b, tolFG, rm))
		}
	}
	if N == 0 {
		// constant input: nothing may carry a derivative (stale in-situ state must not leak)
		if bad, what := leak(cs, rr); bad != "" {
			return fail(bad, what)
		}
		if valuesOnly != "" {
			v.outcome = valuesOnly
		}
		return v
	}
	if valuesOnly != "" {
		v.outcome = valuesOnly
		return v
	}
	if r, ok := checkUnread(); !ok {
		return r
	}
	if isDefEq(cs.Routine) {
		return judgeDefEq(cs, Meff, lr, eff, rr, u, v)
	}
	if len(rr.out) != P.nout {
		return fail("output-shape", fmt.Sprintf("%d outputs, expected %d", len(rr.out), P.nout))
	}
	tolV := tolC * u * P.kappa * P.mag
	tol1 := tolC * u * P.kappa * P.mag * P.mag
	tol2 := tolC * u * P.kappa * P.mag * P.mag * P.mag
	if tol1 > 0.02*P.mag*P.mag {
		// reference-side gate: too ill conditioned for this element type
		v.outcome = "ok:values-only(gated)"
		tol1, tol2 = math.Inf(1), math.Inf(1)
	}
	// values of all outputs first (a value-level failure is keyed with the pivot class)
	for o, s := range rr.out {
		if !note(math.Abs(s.GetFloat64()-P.val(o)), tolV) {
			return fail("value!=reference", fmt.Sprintf("output %d = %v, exact %v", o, s.GetFloat64(), P.val(o)))
		}
	}
	for o, s := range rr.out {
		for m := 0; m < N; m++ {
			want := 0.0
			for _, sl := range eff.vars[m] {
				want += P.g(o, sl)
			}
			if got := d1(s, m); !note(math.Abs(got-want), tol1) {
				return fail("d1!=analytic", fmt.Sprintf("d output[%d]/d var%d(slots %v, read as %v) = %v, analytic %v (tol %.3g)", o, m, act.vars[m], eff.vars[m], got, want, tol1))
			}
		}
		if act.order >= 2 {
			for m := 0; m < N; m++ {
				for m2 := 0; m2 < N; m2++ {
					want := 0.0
					for _, s1 := range eff.vars[m] {
						for _, s2 := range eff.vars[m2] {
							want += P.h(o, s1, s2)
						}
					}
					if got := d2(s, m, m2); !note(math.Abs(got-want), tol2) {
						return fail("d2!=analytic", fmt.Sprintf("d2 output[%d]/d var%d d var%d = %v, analytic %v (tol %.3g)", o, m, m2, got, want, tol2))
					}
				}
			}
		} else {
			for m := 0; m < s.GetN(); m++ {
				for m2 := 0; m2 < s.GetN(); m2++ {
					if d2(s, m, m2) != 0 {
						return fail("order1-carries-hessian", "order-1 run returns a second derivative")
					}
				}
			}
		}
	}
	return v
}

// leak: outputs of a run on constant input must not carry derivatives.
func leak(cs *Case, rr callResult) (string, string) {
	for o, s := range rr.out {
		if skipOut(cs, o) {
			continue
		}
		for i := 0; i < s.GetN(); i++ {
			if d1(s, i) != 0 {
				return "stale-derivative-leak", fmt.Sprintf("output %d of a constant input carries derivative %v", o, d1(s, i))
			}
			for j := 0; j < s.GetN(); j++ {
				if d2(s, i, j) != 0 {
					return "stale-derivative-leak", fmt.Sprintf("output %d of a constant input carries second derivative %v", o, d2(s, i, j))
				}
			}
		}
	}
	return "", ""
}

// judgeForcePD: cholesky.Run(A, LDL, ForcePD) (Gill-Murray modified factorisation).
// Fast path against generic path on every symmetric input (tolerance from the float
// run's own factors); on an SPD effective input the modification is inactive
// (theta_j^2/beta^2 <= c_jj by Cauchy-Schwarz on the Schur complement), the routine is
// locally the LDL' factorisation and its outputs must satisfy the differentiated
// equation L*D*L' = A.
func judgeForcePD(cs *Case, Meff exact.Mat, lr *linref, rm readMap, act, eff activation, rr, fr callResult, u float64, v verdict, checkUnread func() (verdict, bool)) verdict {
	n := cs.N
	fail := func(bad, what string) verdict {
		v.outcome, v.bad, v.what = bad, bad, what
		return v
	}
	if len(rr.out) != 2*n*n {
		return fail("output-shape", "LDL+ForcePD should return L and D")
	}
	mag, dmin := 1.0, math.Inf(1)
	for _, x := range cs.A {
		mag = math.Max(mag, math.Abs(float64(x)))
	}
	finite := true
	for o := range fr.out {
		if skipOut(cs, o) {
			continue
		}
		x := fr.out[o].GetFloat64()
		if math.IsNaN(x) || math.IsInf(x, 0) {
			finite = false
		}
		mag = math.Max(mag, math.Abs(x))
		if o >= n*n && (o-n*n)/n == (o-n*n)%n {
			dmin = math.Min(dmin, x)
		}
	}
	if !finite || !(dmin >= 0.25) {
		// reference-side gate: a division by a tiny modified pivot amplifies rounding
		v.outcome = "ok:outcome-only(gated)"
	} else {
		tol := tolC * u * mag * mag / (math.Min(dmin, 1) * math.Min(dmin, 1))
		for o := range rr.out {
			if skipOut(cs, o) {
				continue
			}
			a, b := rr.out[o].GetFloat64(), fr.out[o].GetFloat64()
			d := math.Abs(a - b)
			if r := d / tol; r > v.margin {
				v.margin = r
			}
			if !(d <= tol) {
				return fail("magic-value!=float-value", fmt.Sprintf("output %d: %s run gives %v, %s run gives %v (tol %.3g; float path reads %v)", o, cs.Elem, a, floatOf(cs.Elem), b, tol, rm))
			}
		}
	}
	if act.N() == 0 {
		if bad, what := leak(cs, rr); bad != "" {
			return fail(bad, what)
		}
		return v
	}
	if !Meff.IsSPD() || lr.det == 0 || rm == mapBoth && !(Meff.IsSymmetric() && symmetricAct(n, act)) {
		if v.outcome == "ok" {
			v.outcome = "ok:values-only(modified factorisation is not differentiated)"
		}
		return v
	}
	if r, ok := checkUnread(); !ok {
		return r
	}
	return judgeDefEq(cs, Meff, lr, eff, rr, u, v)
}

// judgeDefEq: differentiated defining equations evaluated in jet arithmetic from the
// outputs' own derivative slots:  L*L' = A, L*D*L' = A (L unit lower, D diagonal),
// Q*R = A with Q'Q = I and R upper triangular.
func judgeDefEq(cs *Case, M exact.Mat, lr *linref, act activation, rr callResult, u float64, v verdict) verdict {
	n := cs.N
	N := act.N()
	fail := func(bad, what string) verdict {
		v.outcome, v.bad, v.what = bad, bad, what
		return v
	}
	if act.order < 2 {
		// the order-2 part of the equations is not judged: do not propagate it
		jetOrder = 1
		defer func() { jetOrder = 2 }()
	}
	// jet of the input
	Aj := newJmat(n, n, N)
	for i := 0; i < n; i++ {
		for j := 0; j < n; j++ {
			Aj.e[i*n+j].v = float64(M.At(i, j))
		}
	}
	for m, slots := range act.vars {
		for _, s := range slots {
			Aj.e[s].g[m]++
		}
	}
	Ij := newJmat(n, n, N)
	for i := 0; i < n; i++ {
		Ij.e[i*n+i].v = 1
	}
	get := func(off int, lowerOnly, upperOnly, diagOnly bool) jmat {
		m := newJmat(n, n, N)
		for i := 0; i < n; i++ {
			for j := 0; j < n; j++ {
				if (lowerOnly && j > i) || (upperOnly && j < i) || (diagOnly && i != j) {
					continue
				}
				m.e[i*n+j] = jetOf(rr.out[off+i*n+j], N)
			}
		}
		return m
	}
	// maxAll: largest |value|, |first| or |second derivative| of output off+i*n+j (x = its jet;
	// the second derivatives are read from the library scalar when the jets do not carry them)
	maxAll := func(off, i, j int, x jet) float64 {
		m := x.maxAbs(2)
		if x.h == nil {
			s := rr.out[off+i*n+j]
			for a := 0; a < N; a++ {
				for b := 0; b < N; b++ {
					m = math.Max(m, math.Abs(d2(s, a, b)))
				}
			}
		}
		return m
	}
	order := act.order
	scale := math.Max(1, M.NormInf())
	check := func(name string, lhs, rhs jmat, kpow float64) (verdict, bool) {
		tol := tolC * u * math.Pow(lr.kap, kpow) * scale * lr.xmax
		if kpow == 0 {
			tol = tolC * u * scale * 8
		}
		d, wo := lhs.maxDiff(rhs, order)
		if r := d / tol; r > v.margin {
			v.margin = r
		}
		if !(d <= tol) {
			return fail(name+fmt.Sprintf("(order-%d part)", wo), fmt.Sprintf("differentiated defining equation %s violated by %.3g (tol %.3g) in its order-%d part", name, d, tol, wo)), false
		}
		return v, true
	}
	switch cs.Routine {
	case "cholesky":
		if has(cs.Opt, "LDL") {
			if len(rr.out) != 2*n*n {
				return fail("output-shape", "LDL should return L and D")
			}
			L := get(0, true, false, false)
			D := get(n*n, false, false, true)
			Dfull := get(n*n, false, false, false)
			for i := 0; i < n; i++ {
				for j := 0; j < n; j++ {
					if i != j && maxAll(n*n, i, j, Dfull.at(i, j)) != 0 {
						return fail("LDL:D-not-diagonal", fmt.Sprintf("D[%d,%d] or its derivatives are nonzero", i, j))
					}
				}
			}
			for i := 0; i < n; i++ {
				if l := L.at(i, i); l.v != 1 || maxAll(0, i, i, l) != 1 {
					return fail("LDL:unit-diagonal", fmt.Sprintf("L[%d,%d] is not the constant 1", i, i))
				}
			}
			if r, ok := check("L*D*L'=A", L.mul(D).mul(L.T()), Aj, 2); !ok {
				return r
			}
		} else {
			if len(rr.out) != n*n {
				return fail("output-shape", "cholesky should return L")
			}
			L := get(0, true, false, false)
			if r, ok := check("L*L'=A", L.mul(L.T()), Aj, 2); !ok {
				return r
			}
		}
	case "hessenberg":
		// A = U*H*U', U'U = I, H upper Hessenberg (orthogonal similarity: no conditioning factor)
		if len(rr.out) != 2*n*n {
			return fail("output-shape", "hessenbergReduction should return H and U")
		}
		H := get(0, false, false, false)
		U := get(n*n, false, false, false)
		for i := 0; i < n; i++ {
			for j := 0; j+1 < i; j++ {
				if maxAll(0, i, j, H.at(i, j)) != 0 {
					return fail("H-not-hessenberg", fmt.Sprintf("H[%d,%d] or its derivatives are nonzero", i, j))
				}
			}
		}
		if r, ok := check("U*H*U'=A", U.mul(H).mul(U.T()), Aj, 0); !ok {
			return r
		}
		if r, ok := check("U'U=I", U.T().mul(U), Ij, 0); !ok {
			return r
		}
	case "gramSchmidt":
		if len(rr.out) != 2*n*n {
			return fail("output-shape", "gramSchmidt should return Q and R")
		}
		Q := get(0, false, false, false)
		R := get(n*n, false, true, false)
		Rfull := get(n*n, false, false, false)
		for i := 0; i < n; i++ {
			for j := 0; j < i; j++ {
				if maxAll(n*n, i, j, Rfull.at(i, j)) != 0 {
					return fail("R-not-upper-triangular", fmt.Sprintf("R[%d,%d] or its derivatives are nonzero", i, j))
				}
			}
		}
		if r, ok := check("Q*R=A", Q.mul(R), Aj, 3); !ok {
			return r
		}
		if r, ok := check("Q'Q=I", Q.T().mul(Q), Ij, 3); !ok {
			return r
		}
	}
	return v
}

func keyOf(cs *Case, v verdict) string {
	if cs.Routine == "Jacobian" || cs.Routine == "Hessian" {
		return cs.Routine + "|recv=" + cs.Recv + "|x=" + cs.Elem + "|" + v.class + "|" + v.bad
	}
	opt := cs.Opt
	if opt == "" {
		opt = "default"
	}
	pre := ""
	if v.bad == "TICK" {
		pre = "TICK|"
	}
	// the activation pattern and order are part of the violation text and of the replay
	// case; in the key they would multiply one defect into hundreds of keys
	cls := v.class
	if i := strings.Index(cls, ",act="); i >= 0 {
		rest := ""
		if strings.HasSuffix(cls, ",masked") {
			rest = ",masked"
		}
		cls = cls[:i] + rest
	}
	valueLevel := v.bad == "value!=reference" || v.bad == "magic-value!=float-value" || strings.HasSuffix(v.bad, "-on-regular") || v.bad == "fast-generic-outcome-differs"
	if !valueLevel {
		// ... nor on whether the unread triangle of the input differs from the read one
		cls = strings.Replace(cls, ",triangles-differ", "", 1)
	}
	if !valueLevel && strings.HasPrefix(cls, "pivot-") {
		// derivative-level failures do not depend on the pivot order class
		rest := ""
		if strings.HasSuffix(cls, ",masked") {
			rest = ",masked"
		}
		cls = "regular" + rest
	}
	k := pre + cs.Routine + "|opt=" + opt + "|elem=" + cs.Elem + "|" + cls
	if v.bad != "TICK" {
		k += "|" + v.bad
	}
	return k
}

// ---- enumeration ---------------------------------------------------------------

func allMasks(n int) [][]bool {
	var r [][]bool
	for m := 0; m < 1<<n; m++ {
		b := make([]bool, n)
		for i := 0; i < n; i++ {
			b[i] = m&(1<<i) != 0
		}
		r = append(r, b)
	}
	return r
}

func ramp(n int) []int {
	r := make([]int, n)
	for i := range r {
		r[i] = i + 1
	}
	return r
}

type actOrd struct {
	act   string
	order int
}

// patterns: activation x order list. kind: "general" | "upper" | "sym"
//
// large (sizes >= 5, see large.go): 1 = constant input only, 2 = + every entry activated at
// order 1, 3 = + the same at order 2.
func patterns(n int, kind string, symmetricInput, withV bool, light bool, large int) []actOrd {
	var acts []string
	if large > 0 {
		whole := "full"
		switch {
		case kind == "upper":
			whole = "upper"
		case kind == "sym":
			whole = "sym-upper"
		case withV:
			whole = "full+v"
		}
		var r []actOrd
		if kind != "tri" && kind != "asym" {
			r = append(r, actOrd{"none", 0})
		}
		if large >= 2 {
			r = append(r, actOrd{whole, 1})
		}
		if large >= 3 {
			r = append(r, actOrd{whole, 2})
		}
		return r
	}
	switch kind {
	case "general":
		for i := 0; i < n; i++ {
			for j := 0; j < n; j++ {
				acts = append(acts, fmt.Sprintf("entry:%d,%d", i, j))
			}
		}
		for i := 0; i < n; i++ {
			acts = append(acts, fmt.Sprintf("row:%d", i))
		}
		acts = append(acts, "full")
		if withV {
			acts = append(acts, "full+v")
		}
		if symmetricInput && n > 1 {
			acts = append(acts, "sym-upper")
		}
	case "upper":
		for i := 0; i < n; i++ {
			for j := i; j < n; j++ {
				acts = append(acts, fmt.Sprintf("entry:%d,%d", i, j))
			}
		}
		for i := 0; i < n; i++ {
			acts = append(acts, fmt.Sprintf("urow:%d", i))
		}
		acts = append(acts, "upper")
	case "sym":
		for i := 0; i < n; i++ {
			for j := i; j < n; j++ {
				acts = append(acts, fmt.Sprintf("sym:%d,%d", i, j))
			}
		}
		acts = append(acts, "sym-upper")
	case "tri":
		// symmetric input, entries activated individually: every single entry, one triangle
		// only, all entries (n=1: identical to "sym")
		if n > 1 {
			for i := 0; i < n; i++ {
				for j := 0; j < n; j++ {
					acts = append(acts, fmt.Sprintf("entry:%d,%d", i, j))
				}
			}
			acts = append(acts, "lower", "supper", "full")
		}
	case "asym":
		// input whose triangles differ (single entries are covered by "full")
		acts = append(acts, "lower", "supper", "full")
	case "all":
		if withV {
			acts = append(acts, "full+v")
		} else {
			acts = append(acts, "full")
		}
	}
	var r []actOrd
	for _, a := range acts {
		big := strings.HasPrefix(a, "full") || a == "upper" || a == "sym-upper" || a == "lower" || a == "supper"
		if light {
			// n=3 in the quick tier: order 2 everywhere (it carries the first derivatives
			// too), order 1 additionally for the large patterns
			r = append(r, actOrd{a, 2})
			if big {
				r = append(r, actOrd{a, 1})
			}
		} else {
			r = append(r, actOrd{a, 1}, actOrd{a, 2})
		}
	}
	return r
}

// casesFor lists every configuration run on matrix m. Family kinds:
//
//	"general"  every routine whose precondition m satisfies exactly
//	"spd"      m from the symmetric lattice; SPD-specific routines on the SPD members
//	"spd-asym" m = SPD member with its strict upper triangle replaced (triangles differ)
//	"sym-any"  m from the symmetric lattice, not SPD: cholesky ForcePD (values)
func casesFor(m exact.Mat, f family) []Case {
	kind, light, sparse := f.kind, f.light, f.sparse
	n := m.N
	A := m.Ints()
	var cs []Case
	det := m.Det()
	upper := m.IsUpper()
	sym := m.IsSymmetric()
	diag := int64(1)
	for i := 0; i < n; i++ {
		diag *= m.At(i, i)
	}
	for _, e := range f.elems {
		// sizes >= 5: the level of activation patterns of this element type (0: not run)
		large := f.large
		if e == "Real32" {
			large = f.large32
		}
		if f.large > 0 && large == 0 {
			continue
		}
		seen := map[string]bool{}
		add := func(routine, opt string, mask []bool, vec []int, ps []actOrd) {
			inFocus := f.focus == "" || (f.focus == "upper" && (has(opt, "UT") || routine == "backSubstitution"))
			for _, p := range ps {
				if !inFocus && p.act != "none" {
					continue
				}
				if k := actClass(p.act); sparse && (k == "row" || k == "urow" || k == "sym-upper") {
					continue
				}
				// the pattern lists of the large sizes overlap (constant input): every case once
				if id := fmt.Sprint(routine, "|", opt, "|", mask, "|", p); seen[id] {
					continue
				} else {
					seen[id] = true
				}
				cs = append(cs, Case{Routine: routine, N: n, A: A, Vec: vec, Elem: e, Opt: opt, Mask: mask, Act: p.act, Order: p.order})
			}
		}
		none := []actOrd{{"none", 0}}
		// one pattern at order 2 (masks); sizes >= 5: as the family's level allows
		one := func(act string) []actOrd {
			if large > 0 {
				lv := large
				if !f.maskDeriv {
					lv = 1
				}
				return patterns(n, map[string]string{"full": "all", "full+v": "all", "sym-upper": "sym"}[act], false, act == "full+v", light, lv)
			}
			return []actOrd{{act, 2}}
		}
		pdInv := []string{"PD", "PD+insitu"}
		pdDet := []string{"PD", "PD+log", "PD+insitu", "PD+log+insitu"}
		chol := []string{"", "insitu", "LDL", "LDL+insitu", "LDL+ForcePD", "LDL+ForcePD+insitu"}
		switch kind {
		case "sym-any":
			if !sym || m.IsSPD() {
				continue
			}
			add("cholesky", "LDL+ForcePD", nil, nil, none)
			add("cholesky", "LDL+ForcePD+insitu", nil, nil, none)
			continue
		case "spd":
			if !m.IsSPD() {
				continue
			}
			ps := append(patterns(n, "sym", true, false, light, large), patterns(n, "tri", true, false, light, large)...)
			for _, o := range pdInv {
				add("matrixInverse", o, nil, nil, ps)
			}
			add("matrixInverse", "PD+insitu", nil, nil, none)
			for _, o := range pdDet {
				add("determinant", o, nil, nil, ps)
			}
			add("determinant", "PD+log+insitu", nil, nil, none)
			for _, o := range chol {
				add("cholesky", o, nil, nil, ps)
			}
			add("cholesky", "insitu", nil, nil, none)
			add("cholesky", "LDL+insitu", nil, nil, none)
			add("cholesky", "LDL+ForcePD", nil, nil, none)
			add("cholesky", "LDL+ForcePD+insitu", nil, nil, none)
			for _, mk := range masksFor(n) {
				add("matrixInverse", "PD+sub", mk, nil, one("sym-upper"))
				if n > 1 {
					add("matrixInverse", "PD+sub", mk, nil, one("full"))
				}
			}
			continue
		case "spd-asym":
			if sym || !mapSymLower.effective(m).IsSPD() {
				continue
			}
			ps := append(patterns(n, "asym", false, false, light, large), none...)
			for _, o := range pdInv {
				add("matrixInverse", o, nil, nil, ps)
			}
			for _, o := range pdDet {
				add("determinant", o, nil, nil, ps)
			}
			for _, o := range chol {
				add("cholesky", o, nil, nil, ps)
			}
			for _, mk := range masksFor(n) {
				add("matrixInverse", "PD+sub", mk, nil, append(one("full"), none...))
			}
			continue
		}
		gen := patterns(n, "general", sym, false, light, large)
		genV := patterns(n, "general", sym, true, light, large)
		for _, r := range []string{"MdotM:A*A", "MdotM:A*At"} {
			add(r, "", nil, nil, gen)
		}
		for _, r := range []string{"MdotV", "VdotM", "Outer"} {
			add(r, "", nil, ramp(n), genV)
		}
		// the cofactor expansion costs n! scalar operations: differentiated up to n=6, values at
		// n=7, not run at n=8
		switch {
		case n <= 6:
			add("determinant", "", nil, nil, gen)
		case n == 7:
			add("determinant", "", nil, nil, none)
		}
		// Householder reflectors are not differentiable where the eliminated tail is zero
		// (n >= 4: where that happens depends on the transformed matrix; values only)
		if large > 0 {
			add("hessenberg", "", nil, nil, none)
		} else if n < 3 || m.At(2, 0) != 0 {
			add("hessenberg", "", nil, nil, gen)
		}
		if det != 0 {
			add("matrixInverse", "", nil, nil, gen)
			add("matrixInverse", "insitu", nil, nil, gen)
			add("matrixInverse", "insitu", nil, nil, none)
			add("gaussJordan", "", nil, ramp(n), genV)
			add("gramSchmidt", "", nil, nil, gen)
		}
		for _, mk := range masksFor(n) {
			add("matrixInverse", "sub", mk, nil, one("full"))
			add("gaussJordan", "sub", mk, ramp(n), one("full+v"))
		}
		if upper && det != 0 {
			up := patterns(n, "upper", false, false, light, large)
			add("matrixInverse", "UT", nil, nil, up)
			add("matrixInverse", "UT+insitu", nil, nil, up)
			add("gaussJordan", "UT", nil, ramp(n), up)
			add("backSubstitution", "", nil, ramp(n), up)
			// UpperTriangular together with Submatrix (the specialised triangular path has its
			// own mask handling; matrixInverse PD+sub reaches it only through Cholesky)
			for _, mk := range masksFor(n) {
				add("gaussJordan", "UT+sub", mk, ramp(n), one("full+v"))
			}
		}
		if diag != 0 {
			// triangular-contract routines on every matrix with a regular upper triangle: the
			// strict lower triangle (zero or not) is activated too and must be ignored
			all := patterns(n, "all", false, false, light, large)
			allV := patterns(n, "all", false, true, light, large)
			if !upper {
				all, allV = append(all, none...), append(allV, none...)
			}
			if n > 1 {
				add("matrixInverse", "UT", nil, nil, all)
				add("matrixInverse", "UT+insitu", nil, nil, all)
			}
			add("gaussJordan", "UT", nil, ramp(n), allV)
			add("backSubstitution", "", nil, ramp(n), allV)
			add("backSubstitution", "insitu", nil, ramp(n), allV)
			add("backSubstitution", "insitu", nil, ramp(n), none)
		}
	}
	return cs
}

type family struct {
	name  string
	n     int
	count int64
	at    func(i int64) exact.Mat // N==0: index not used
	kind  string
	light bool
	elems []string
	// sparse: only single-entry and full activation patterns (large thorough lattice)
	sparse bool
	// large: family of size >= 5 (large.go), level of the activation patterns run with Real64:
	// 1 values of the constant input, 2 + all entries activated at order 1, 3 + at order 2;
	// large32: the same for Real32 (0: Real32 not run); maskDeriv: the Submatrix masks are run
	// at that level too (otherwise on constant input only); focus "upper": only the
	// triangular-contract routines at that level, all others on constant input only
	large, large32 int
	maskDeriv      bool
	focus          string
}

func lattice(n int, alpha []int64, light bool, elems []string) family {
	return family{name: fmt.Sprintf("n=%d,entries=%v", n, alpha), n: n, count: exact.LatticeCount(n, alpha), at: func(i int64) exact.Mat { return exact.LatticeAt(n, alpha, i) }, kind: "general", light: light, elems: elems}
}

func symAt(n int, alpha []int64, i int64) exact.Mat {
	k := int64(len(alpha))
	m := exact.New(n)
	for r := 0; r < n; r++ {
		for c := r; c < n; c++ {
			m.Set(r, c, alpha[i%k])
			m.Set(c, r, alpha[i%k])
			i /= k
		}
	}
	return m
}

func symCount(n int, alpha []int64) int64 {
	cnt := int64(1)
	for i := 0; i < n*(n+1)/2; i++ {
		cnt *= int64(len(alpha))
	}
	return cnt
}

func symLattice(n int, alpha []int64, light bool, elems []string) family {
	return family{name: fmt.Sprintf("n=%d,symmetric,entries=%v(SPD members)", n, alpha), n: n, count: symCount(n, alpha),
		at: func(i int64) exact.Mat { return symAt(n, alpha, i) }, kind: "spd", light: light, elems: elems}
}

// symAnyLattice: the members that are not SPD (cholesky ForcePD accepts any symmetric matrix)
func symAnyLattice(n int, alpha []int64, elems []string) family {
	return family{name: fmt.Sprintf("n=%d,symmetric,entries=%v(members that are not SPD)", n, alpha), n: n, count: symCount(n, alpha),
		at: func(i int64) exact.Mat { return symAt(n, alpha, i) }, kind: "sym-any", elems: elems}
}

// asymLattice: every SPD member S of the symmetric lattice x every replacement of its
// strict upper triangle from variantOf (the lower triangle and diagonal stay).
func asymLattice(n int, alpha []int64, light, thorough bool, elems []string) family {
	nv := nVariants(n, alpha, thorough)
	inAlpha := func(x int64) bool {
		for _, a := range alpha {
			if a == x {
				return true
			}
		}
		return false
	}
	what := "S+ramp, zero, +-1 at one position"
	if thorough {
		what += ", every assignment of lattice values"
	}
	return family{name: fmt.Sprintf("n=%d,SPD members of symmetric entries=%v x strict upper triangle replaced (%s)", n, alpha, what), n: n, count: symCount(n, alpha) * nv,
		at: func(i int64) exact.Mat {
			S := symAt(n, alpha, i/nv)
			v := i % nv
			if !S.IsSPD() {
				return exact.Mat{}
			}
			M := variantOf(S, v, alpha)
			if M.IsSymmetric() {
				return exact.Mat{}
			}
			if thorough && v < int64(2+2*nUpper(n)) {
				// already part of the exhaustive assignment block?
				dup := true
				for k := 0; k < nUpper(n); k++ {
					r, c := upperPos(n, k)
					dup = dup && inAlpha(M.At(r, c))
				}
				if dup {
					return exact.Mat{}
				}
			}
			return M
		}, kind: "spd-asym", light: light, elems: elems}
}

func sumAbs(m exact.Mat) int64 {
	s := int64(0)
	for _, v := range m.V {
		if v < 0 {
			v = -v
		}
		s += v
	}
	return s
}

func marginBucket(r float64) string {
	switch {
	case r == 0:
		return "exact"
	case r < 1e-3:
		return "<1e-3"
	case r < 1e-2:
		return "<1e-2"
	case r < 1e-1:
		return "<1e-1"
	case r <= 1:
		return "<=1"
	}
	return ">1"
}

func explore(c *vf.Ctx, fams []family) {
	var gidx int64
	// debugging aids: VERIF_C06_PROFILE=1 counts the wall time spent per family,
	// VERIF_C06_ONLY=<substring> restricts the run to the families whose name contains it
	// (reported as a cap: the evidence then says exhaustive:false)
	prof := os.Getenv("VERIF_C06_PROFILE") != ""
	only := os.Getenv("VERIF_C06_ONLY")
	if only != "" {
		c.Cap("VERIF_C06_ONLY=" + only)
	}
	for fi, f := range fams {
		if only != "" && !strings.Contains(f.name, only) {
			continue
		}
		for i := int64(0); i < f.count; i++ {
			gidx++
			if !c.Mine(gidx) {
				continue
			}
			if prof {
				t0 := time.Now()
				exploreOne(c, fi, f, i, gidx)
				c.Count("profile-us:"+f.name, int64(time.Since(t0)/time.Microsecond))
				continue
			}
			exploreOne(c, fi, f, i, gidx)
		}
	}
}

func exploreOne(c *vf.Ctx, fi int, f family, i, gidx int64) {
	m := f.at(i)
	if m.N == 0 {
		return
	}
	if msg := m.CrossCheck(); msg != "" {
		c.HarnessError("reference self-check: " + msg)
		return
	}
	cases := casesFor(m, f)
	if len(cases) > 0 {
		c.Count("matrices:"+f.name, 1)
	}
	for k := range cases {
		cs := &cases[k]
		rank := int64(fi)*1e15 + sumAbs(m)*1e12 + i*10000 + int64(k)
		c.Guard(cs.Routine+"|"+cs.Opt+"|"+cs.Elem, rank, cs)
		v := judge(cs)
		c.Eval(1)
		if v.nontriv {
			c.Nontrivial(1)
		}
		c.Outcome(cs.Routine + "|" + cs.Opt + "|" + actClass(cs.Act) + "|" + v.outcome)
		c.Count("outcome:"+cs.Routine+":"+v.outcome, 1)
		if v.nontriv {
			c.Count("margin(err/tol):"+cs.Elem+":"+marginBucket(v.margin), 1)
		}
		if v.rmap != "" {
			c.Count("readset:"+cs.Routine+"("+cs.Opt+") "+floatOf(cs.Elem)+": "+v.rmap, 1)
		}
		if v.bad != "" {
			c.Violate(keyOf(cs, v), fmt.Sprintf("%s(%s) %s A=%v mask=%v vec=%v act=%s order=%d: %s", cs.Routine, cs.Opt, cs.Elem, m, cs.Mask, cs.Vec, cs.Act, cs.Order, v.what), rank, cs)
		}
		if gidx%4099 == 0 && k == 7 {
			c.Sample(cs)
		}
	}
}

func main() {
	vf.Main(vf.Spec{
		ID:    "C06",
		Level: "exploration",
		Rule: "every integer matrix of the stated lattices x routine (MdotM, MdotV, VdotM, Outer, matrixInverse, gaussJordan solve (default, UpperTriangular, Submatrix over the masks, UpperTriangular+Submatrix), backSubstitution, determinant naive/PD/log, cholesky/LDL/LDL+ForcePD, gramSchmidt, hessenbergReduction with U) x option set admissible for the matrix (exact SPD / triangular / regular tests) x element type (Real64, Real32) " +
			"x activation pattern (every single entry, every row, full matrix, full matrix + vector, symmetric upper triangle with A_ij and A_ji carrying the same variable; for UpperTriangular options only entries on or above the diagonal, and all n*n entries) x order 1,2; " +
			"each case runs the routine on the magic type and on the plain float type (fast path) and compares values, then compares every first and second derivative slot of every output with analytic matrix calculus from the exact inverse/cofactors " +
			"(or evaluates the differentiated defining equation in an independent jet arithmetic); in-situ buffers are pre-filled with stale values and derivative state. " +
			"Read sets: for routines with a symmetric (cholesky, PositiveDefinite) or triangular (UpperTriangular, backSubstitution) input contract the entries the specialised float path reads are determined per input by differential runs (+1 on every single off-diagonal entry, bitwise comparison); " +
			"inputs: every SPD lattice member, every SPD member with its strict upper triangle replaced (S+(1,2,3), zero, +-1 at one position; thorough: every assignment of lattice values), every lattice matrix with non-zero diagonal for the triangular routines; " +
			"on each the generic path must return the float path's values (order 0, and every activation) and the derivatives of g(R(A)), R = the observed read map: activation patterns every single entry of a symmetric input, strict lower triangle + diagonal, strict upper triangle only, all n*n entries; " +
			"LDL+ForcePD additionally on every symmetric lattice member that is not SPD (values). " +
			"Sizes 5 and 6 (thorough also 7 and 8), structured families enumerated completely: every row permutation of unit upper-triangular templates (every pivot order), companion matrices in four orientations over a coefficient alphabet, the identity bordered by a {0,1} row and column, unit upper-triangular Toeplitz {0,1,-1}; " +
			"SPD tridiagonal (diag 2, off {0,1,-1}), SPD pentadiagonal, SPD arrowhead with the border first or last, Gram matrices B*B' of lower-triangular Toeplitz integer factors (dense, integer Cholesky factor), Gram/tridiagonal members with the strict upper triangle replaced, symmetric tridiagonal members that are not SPD; " +
			"each member x every routine and option set above that is admissible for it (Submatrix masks: full, empty, every leave-one-out, the two alternating, leading and trailing half) x element type (Real64 against the Float64 fast paths; Real32 against the Float32 fast paths on the symmetric families) " +
			"x {constant input: generic-path values = fast-path values and no derivative leaks; all entries (+ vector) activated as individual variables at order 1; the same at order 2; symmetric families also the symmetric parametrisation} up to the level named in the family's counter ('matrices:<family> [Real64:..,Real32:..]'); " +
			"quick: order 2 on one size-5 family per routine group (row permutations: general routines; upper Toeplitz: triangular-contract routines; Gram: SPD routines), order 1 on further size-5 families and on three size-6 families, values on all; thorough: order 2 on every size-5 family and on one size-6 family of each kind, order 1 on the other size-6 families and at sizes 7 and 8 (levels: see the counters). " +
			"Jacobian/Hessian helpers: every expression of a depth-2 family x point lattice x receiver type x argument type x argument state (plain, already activated in a wider variable set, carrying stale order-1 / order-2 gradient and Hessian content of the same N from an earlier computation) against an independent jet evaluation",
		Assume: []string{
			"tolerances: values 1024*u*kappa*scale, fast-vs-generic 64*u*kappa*scale, derivatives 1024*u*kappa*scale^(order+1); derivative comparison gated (values only) when 1024*u*kappa > 0.02 for the element type",
			"reference for structured-input routines: the function of the n*n stored entries that the specialised float path computes, f(A)=g(R(A)); on the unchanged library R mirrors the lower triangle (cholesky, LDL, PositiveDefinite determinant/inverse) resp. drops the strict lower triangle (UpperTriangular, backSubstitution); d f/d A_ij = 0 exactly for an unread entry (within tolerance when stale in-situ buffers are supplied), = derivative of g along E_ij+E_ji for a read off-diagonal entry of a symmetric-contract routine",
			"LDL+ForcePD: differentiated (as L*D*L'=A) only on SPD effective input, where the Gill-Murray modification is provably inactive; elsewhere fast path = generic path on values, compared only when the float run's smallest pivot is >= 1/4",
			"stale in-situ buffers carry the same number of variables and order as the input (what a previous call with the same variables leaves behind), or a foreign state when the input is constant",
			"singular inputs are not differentiated (C04 judges them)",
			"sizes >= 5: hessenbergReduction is compared on values only (where a Householder reflector is not differentiable depends on the transformed matrix); in the quick tier the Submatrix masks are run on constant input only; the naive determinant (n! operations) is differentiated up to n=6, compared on values at n=7 and not run at n=8; single-entry and single-row activation patterns are not repeated (all entries are activated as individual variables, which yields every first and second partial derivative)",
		},
		Run: func(c *vf.Ctx) {
			a5 := []int64{0, 1, -1, 2, -2}
			a3 := []int64{0, 1, -1}
			both := []string{"Real64", "Real32"}
			var fams []family
			if c.Thorough() {
				// large lattice: Real64, order 2 (+ order 1 for the full pattern), single-entry and full activation
				big := lattice(3, []int64{0, 1, -1, 2}, true, []string{"Real64"})
				big.sparse = true
				fams = []family{lattice(1, a5, false, both), lattice(2, a5, false, both), lattice(3, a3, false, both),
					symLattice(1, a5, false, both), symLattice(2, a5, false, both), symLattice(3, a5, false, both),
					big,
					asymLattice(2, a5, false, true, both), asymLattice(3, a5, true, true, both),
					symAnyLattice(1, a5, both), symAnyLattice(2, a5, both), symAnyLattice(3, a5, both)}
			} else {
				fams = []family{lattice(1, a5, false, both), lattice(2, a5, false, both), lattice(3, a3, true, []string{"Real64"}),
					symLattice(1, a5, false, both), symLattice(2, a5, false, both), symLattice(3, a5, true, both),
					asymLattice(2, a5, false, false, both), asymLattice(3, a5, true, false, both),
					symAnyLattice(1, a5, both), symAnyLattice(2, a5, both), symAnyLattice(3, a3, both)}
			}
			if p := os.Getenv("VERIF_C06_CPUPROFILE"); p != "" {
				if f, err := os.Create(fmt.Sprintf("%s.%d", p, c.Shard)); err == nil {
					pprof.StartCPUProfile(f)
					defer pprof.StopCPUProfile()
				}
			}
			explore(c, append(fams, largeFamilies(c.Thorough())...))
			if os.Getenv("VERIF_C06_ONLY") == "" {
				exploreHelpers(c)
			}
		},
		Replay: func(c *vf.Ctx, raw json.RawMessage) {
			var cs Case
			if err := json.Unmarshal(raw, &cs); err != nil {
				c.HarnessError(err.Error())
				return
			}
			v := judge(&cs)
			if v.bad != "" {
				c.Violate(keyOf(&cs, v), v.what, 0, cs)
			}
		},
	})
}

var _ = ad.Float64Type
