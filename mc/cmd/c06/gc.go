package main

import "runtime/debug"

// The harness allocates millions of short-lived derivative vectors while its live heap
// stays at a few MB; with the default GOGC the collector runs every ~4 MB of allocation
// and takes a third of the CPU time. Let the heap grow to ~10x the live size instead.
func init() { debug.SetGCPercent(1000) }
