package main

// Which entries of its input does a routine read?
//
// Routines with a structured-input contract (symmetric positive definite: cholesky and its
// LDL/ForcePD variants, determinant/matrixInverse with PositiveDefinite; upper triangular:
// matrixInverse/gaussJordan with UpperTriangular, backSubstitution) do not read all n*n
// entries. As a function of the n*n stored entries such a routine is  f(A) = g(R(A))  with
// a linear "read map" R (mirror the lower triangle; drop the strict lower triangle), so
//
//   - its value on an input whose two triangles differ is g(R(A)),
//   - the derivative with respect to an entry that is not read is exactly zero,
//   - the derivative with respect to a read off-diagonal entry of a symmetric-contract
//     routine is the derivative of g along E_ij + E_ji (the entry stands for the pair).
//
// R is not taken from the source: it is decided per (routine, options, element width,
// input matrix) by differential runs of the specialised float path (perturb every single
// off-diagonal entry by +1, exactly representable, and compare the results bit by bit).
// The generic path (magic element types) is then required to be the same function: same
// values on triangle-perturbed inputs (order 0) and the derivatives described above.

import (
	"fmt"
	"math"

	"verif/mc/cmd/c04/exact"
)

type readMap int

const (
	mapAll      readMap = iota // every entry is an independent input
	mapSymLower                // strict lower triangle + diagonal are read, A_ij (i>j) stands for the symmetric pair
	mapSymUpper                // strict upper triangle + diagonal are read
	mapTriUpper                // upper triangle incl. diagonal is read, the strict lower triangle is ignored
	mapBoth                    // symmetric-contract routine whose float path reads both triangles
)

func (rm readMap) String() string {
	return [...]string{"all", "lower+diag(mirrored)", "upper+diag(mirrored)", "upper-triangle", "both-triangles"}[rm]
}

// contractOf: "sym" | "upper" | "" (the documented precondition of routine+options)
func contractOf(cs *Case) string {
	switch {
	case cs.Routine == "cholesky", has(cs.Opt, "PD"):
		return "sym"
	case has(cs.Opt, "UT"), cs.Routine == "backSubstitution":
		return "upper"
	}
	return ""
}

// effective returns R(M).
func (rm readMap) effective(M exact.Mat) exact.Mat {
	n := M.N
	E := exact.New(n)
	for i := 0; i < n; i++ {
		for j := 0; j < n; j++ {
			v := M.At(i, j)
			switch {
			case rm == mapSymLower && j > i, rm == mapSymUpper && j < i:
				v = M.At(j, i)
			case rm == mapTriUpper && j < i:
				v = 0
			}
			E.Set(i, j, v)
		}
	}
	return E
}

// slots: the entries of R(A) that carry matrix slot s=i*n+j of A.
func (rm readMap) slots(n, s int) []int {
	if s >= n*n {
		return []int{s}
	}
	i, j := s/n, s%n
	switch rm {
	case mapSymLower:
		if j > i {
			return nil
		}
		if i > j {
			return []int{s, j*n + i}
		}
	case mapSymUpper:
		if j < i {
			return nil
		}
		if i < j {
			return []int{s, j*n + i}
		}
	case mapTriUpper:
		if j < i {
			return nil
		}
	}
	return []int{s}
}

// effAct pushes an activation through the read map: variable m is carried by the
// effective slots of all its slots (with multiplicity: R is linear).
func (rm readMap) effAct(n int, act activation) activation {
	e := activation{order: act.order, vars: make([][]int, len(act.vars))}
	for m, sl := range act.vars {
		for _, s := range sl {
			e.vars[m] = append(e.vars[m], rm.slots(n, s)...)
		}
	}
	return e
}

// symmetricAct: every variable is carried by a transpose-closed set of matrix slots
func symmetricAct(n int, act activation) bool {
	for _, sl := range act.vars {
		cnt := map[int]int{}
		for _, s := range sl {
			cnt[s]++
		}
		for s, c := range cnt {
			if s < n*n && cnt[(s%n)*n+s/n] != c {
				return false
			}
		}
	}
	return true
}

type probeResult struct {
	baseLoud   bool
	infl       []bool // off-diagonal slot s: a +1 perturbation of A[s] changes the float path's result
	anyU, anyL bool
}

var probeCache = map[string]probeResult{}

func sameResult(a, b callResult) bool {
	if a.loud() || b.loud() {
		return a.loud() && b.loud() && a.label() == b.label()
	}
	if len(a.out) != len(b.out) {
		return false
	}
	for o := range a.out {
		if math.Float64bits(a.out[o].GetFloat64()) != math.Float64bits(b.out[o].GetFloat64()) {
			return false
		}
	}
	return true
}

// probe: differential runs of the float path of cs (same options, mask, vector).
func probe(cs *Case) probeResult {
	fe := floatOf(cs.Elem)
	key := fmt.Sprint(cs.Routine, cs.N, cs.A, cs.Vec, cs.Opt, cs.Mask, fe)
	if r, ok := probeCache[key]; ok {
		return r
	}
	if len(probeCache) > 64 {
		probeCache = map[string]probeResult{}
	}
	n := cs.N
	base := floatRun(cs)
	r := probeResult{baseLoud: base.loud() || base.ticked, infl: make([]bool, n*n)}
	if !r.baseLoud {
		for i := 0; i < n; i++ {
			for j := 0; j < n; j++ {
				if i == j {
					continue
				}
				c2 := *cs
				c2.A = append([]int{}, cs.A...)
				c2.A[i*n+j]++
				if !sameResult(base, call(&c2, fe, activation{})) {
					r.infl[i*n+j] = true
					if j > i {
						r.anyU = true
					} else {
						r.anyL = true
					}
				}
			}
		}
	}
	probeCache[key] = r
	return r
}

// decideMap: the read map of the float path at this input. When the probe cannot tell
// (1x1, float path rejects the input) the map observed on the unchanged library is used:
// lower triangle for the symmetric contract, upper triangle for the triangular one.
func decideMap(cs *Case) readMap {
	switch contractOf(cs) {
	case "sym":
		if cs.N == 1 {
			return mapSymLower
		}
		p := probe(cs)
		switch {
		case !p.anyU:
			return mapSymLower
		case !p.anyL:
			return mapSymUpper
		}
		return mapBoth
	case "upper":
		if cs.N == 1 {
			return mapTriUpper
		}
		if p := probe(cs); p.anyL {
			return mapAll
		}
		return mapTriUpper
	}
	return mapAll
}

// ---- inputs whose two triangles differ -----------------------------------------

func nUpper(n int) int { return n * (n - 1) / 2 }

// upperPos: k-th strict-upper position in row-major order
func upperPos(n, k int) (int, int) {
	for i := 0; i < n; i++ {
		for j := i + 1; j < n; j++ {
			if k == 0 {
				return i, j
			}
			k--
		}
	}
	panic("upperPos")
}

// nVariants / variantOf: the strict upper triangle of the symmetric matrix S is replaced;
// the lower triangle and the diagonal (what the float paths read) stay.
//
//	quick:    0: S_ij + (1,2,3,..) ; 1: all zero ; 2..: +1 / -1 at one position
//	thorough: additionally every assignment of alphabet values to the strict upper triangle
func nVariants(n int, alpha []int64, thorough bool) int64 {
	v := int64(2 + 2*nUpper(n))
	if thorough {
		c := int64(1)
		for k := 0; k < nUpper(n); k++ {
			c *= int64(len(alpha))
		}
		v += c
	}
	return v
}

func variantOf(S exact.Mat, v int64, alpha []int64) exact.Mat {
	n := S.N
	M := exact.Mat{N: n, V: append([]int64{}, S.V...)}
	nu := nUpper(n)
	switch {
	case v == 0:
		for k := 0; k < nu; k++ {
			i, j := upperPos(n, k)
			M.Set(i, j, S.At(i, j)+int64(k+1))
		}
	case v == 1:
		for k := 0; k < nu; k++ {
			i, j := upperPos(n, k)
			M.Set(i, j, 0)
		}
	case v < int64(2+2*nu):
		k := int(v-2) / 2
		i, j := upperPos(n, k)
		d := int64(1)
		if (v-2)%2 == 1 {
			d = -1
		}
		M.Set(i, j, S.At(i, j)+d)
	default:
		v -= int64(2 + 2*nu)
		q := int64(len(alpha))
		for k := 0; k < nu; k++ {
			i, j := upperPos(n, k)
			M.Set(i, j, alpha[v%q])
			v /= q
		}
	}
	return M
}
