package main

// Library-side adapters: build inputs of a given element type, activate variables,
// call the real routine under a tick budget, collect output scalars.

import (
	"fmt"
	"math"
	"strings"

	ad "github.com/pbenner/autodiff"
	"github.com/pbenner/autodiff/algorithm/backSubstitution"
	"github.com/pbenner/autodiff/algorithm/cholesky"
	"github.com/pbenner/autodiff/algorithm/determinant"
	"github.com/pbenner/autodiff/algorithm/gaussJordan"
	"github.com/pbenner/autodiff/algorithm/gramSchmidt"
	"github.com/pbenner/autodiff/algorithm/hessenbergReduction"
	"github.com/pbenner/autodiff/algorithm/matrixInverse"
	verifrt "github.com/pbenner/autodiff/zz_verifrt"

	"verif/mc/cmd/c04/exact"
)

var elemTypes = map[string]ad.ScalarType{
	"Float32": ad.Float32Type, "Float64": ad.Float64Type, "Real32": ad.Real32Type, "Real64": ad.Real64Type,
}

func unitRoundoff(elem string) float64 {
	if strings.HasSuffix(elem, "32") {
		return math.Ldexp(1, -24)
	}
	return math.Ldexp(1, -53)
}

func floatOf(elem string) string {
	if strings.HasSuffix(elem, "32") {
		return "Float32"
	}
	return "Float64"
}

func has(opt, tok string) bool {
	for _, t := range strings.Split(opt, "+") {
		if t == tok {
			return true
		}
	}
	return false
}

func buildMatrix(t ad.ScalarType, m exact.Mat) ad.Matrix {
	r := ad.NullDenseMatrix(t, m.N, m.N)
	for i := 0; i < m.N; i++ {
		for j := 0; j < m.N; j++ {
			r.At(i, j).SetFloat64(float64(m.At(i, j)))
		}
	}
	return r
}

func buildVector(t ad.ScalarType, v []int) ad.Vector {
	r := ad.NullDenseVector(t, len(v))
	for i := range v {
		r.At(i).SetFloat64(float64(v[i]))
	}
	return r
}

// stale: give a buffer scalar the derivative state a previous call with the same
// variables could have left behind (same N and order, arbitrary finite contents).
func stale(s ad.Scalar, val float64, N, order int, salt int) ad.Scalar {
	s.SetFloat64(val)
	ms, ok := s.(ad.MagicScalar)
	if !ok || N == 0 || order == 0 {
		return s
	}
	ms.Alloc(N, order)
	for i := 0; i < N; i++ {
		ms.SetDerivative(i, 0.5+float64((salt+3*i)%7)-3)
		if order >= 2 {
			for j := 0; j < N; j++ {
				ms.SetHessian(i, j, 0.25+float64((salt+i+2*j)%5)-2)
			}
		}
	}
	return s
}

func staleMatrix(t ad.ScalarType, n, N, order int) ad.Matrix {
	r := ad.NullDenseMatrix(t, n, n)
	for i := 0; i < n; i++ {
		for j := 0; j < n; j++ {
			stale(r.At(i, j), 1.5+0.75*float64(i)-1.25*float64(j), N, order, i*n+j)
		}
	}
	return r
}
func staleVector(t ad.ScalarType, n, N, order int) ad.Vector {
	r := ad.NullDenseVector(t, n)
	for i := 0; i < n; i++ {
		stale(r.At(i), -2.5+1.75*float64(i), N, order, i)
	}
	return r
}

type callResult struct {
	out    []ad.ConstScalar
	err    error
	pan    any
	ticked bool
}

func (r callResult) loud() bool { return r.err != nil || r.pan != nil }
func (r callResult) label() string {
	switch {
	case r.ticked:
		return "tick-budget"
	case r.pan != nil:
		return "panic"
	case r.err != nil:
		return "error"
	}
	return "returned"
}

func guarded(n int, f func() ([]ad.ConstScalar, error)) (res callResult) {
	budget := int64(200000) * int64((n+1)*(n+1)*(n+1))
	verifrt.Reset(budget)
	defer func() {
		verifrt.Reset(0)
		if r := recover(); r != nil {
			if _, ok := r.(verifrt.BudgetExceeded); ok {
				res.ticked = true
			}
			res.pan = r
		}
	}()
	res.out, res.err = f()
	return
}

func matOut(m ad.ConstMatrix) []ad.ConstScalar {
	r, c := m.Dims()
	o := make([]ad.ConstScalar, 0, r*c)
	for i := 0; i < r; i++ {
		for j := 0; j < c; j++ {
			o = append(o, m.ConstAt(i, j))
		}
	}
	return o
}
func vecOut(v ad.ConstVector) []ad.ConstScalar {
	o := make([]ad.ConstScalar, 0, v.Dim())
	for i := 0; i < v.Dim(); i++ {
		o = append(o, v.ConstAt(i))
	}
	return o
}

// activation: vars[m] = slots carrying variable m
type activation struct {
	vars  [][]int
	order int
}

func (a activation) N() int { return len(a.vars) }

// call runs cs.Routine/cs.Opt on matrix M (and vector v) with element type elem and the
// given activation; slots 0..n*n-1 are the matrix entries, n*n.. the vector entries.
func call(cs *Case, elem string, act activation) callResult {
	t := elemTypes[elem]
	n := cs.N
	M := exact.FromInts(n, cs.A)
	A := buildMatrix(t, M)
	var v ad.Vector
	if cs.Vec != nil {
		v = buildVector(t, cs.Vec)
	}
	N := act.N()
	for m, slots := range act.vars {
		for _, s := range slots {
			var sc ad.Scalar
			if s < n*n {
				sc = A.At(s/n, s%n)
			} else {
				sc = v.At(s - n*n)
			}
			ms, ok := sc.(ad.MagicScalar)
			if !ok {
				panic("activation on non-magic element type")
			}
			if err := ms.SetVariable(m, N, act.order); err != nil {
				panic(err)
			}
		}
	}
	order := act.order
	if N == 0 {
		order = 0
	}
	// stale buffers: same N/order as the variables; for constant input use a foreign
	// derivative state (N=2, order 2) that must not leak into the outputs
	sN, sO := N, order
	if N == 0 && (elem == "Real64" || elem == "Real32") {
		sN, sO = 2, 2
	}
	return guarded(n, func() ([]ad.ConstScalar, error) {
		switch cs.Routine {
		case "MdotM:A*A":
			r := ad.NullDenseMatrix(t, n, n)
			r.MdotM(A, A)
			return matOut(r), nil
		case "MdotM:A*At":
			r := ad.NullDenseMatrix(t, n, n)
			r.MdotM(A, A.T())
			return matOut(r), nil
		case "MdotV":
			r := ad.NullDenseVector(t, n)
			r.MdotV(A, v)
			return vecOut(r), nil
		case "VdotM":
			r := ad.NullDenseVector(t, n)
			r.VdotM(v, A)
			return vecOut(r), nil
		case "Outer":
			r := ad.NullDenseMatrix(t, n, n)
			r.Outer(v, A.Row(0))
			return matOut(r), nil
		case "matrixInverse":
			var args []interface{}
			if has(cs.Opt, "PD") {
				args = append(args, matrixInverse.PositiveDefinite{Value: true})
			}
			if has(cs.Opt, "UT") {
				args = append(args, matrixInverse.UpperTriangular{Value: true})
			}
			if has(cs.Opt, "sub") {
				args = append(args, gaussJordan.Submatrix{Value: append([]bool{}, cs.Mask...)})
			}
			if has(cs.Opt, "insitu") {
				args = append(args, &matrixInverse.InSitu{
					Id: staleMatrix(t, n, sN, sO), A: staleMatrix(t, n, sN, sO), B: staleVector(t, n, sN, sO),
					Cholesky: cholesky.InSitu{L: staleMatrix(t, n, sN, sO), S: stale(ad.NewScalar(t, 0), 7.25, sN, sO, 1), T: stale(ad.NewScalar(t, 0), -3.5, sN, sO, 2)}})
			}
			x, err := matrixInverse.Run(A, args...)
			if err != nil {
				return nil, err
			}
			return matOut(x), nil
		case "gaussJordan":
			x := ad.NullDenseMatrix(t, n, n)
			x.SetIdentity()
			var args []interface{}
			if has(cs.Opt, "UT") {
				args = append(args, gaussJordan.UpperTriangular{Value: true})
			}
			if has(cs.Opt, "sub") {
				args = append(args, gaussJordan.Submatrix{Value: append([]bool{}, cs.Mask...)})
			}
			if err := gaussJordan.Run(A, x, v, args...); err != nil {
				return nil, err
			}
			return append(matOut(x), vecOut(v)...), nil
		case "determinant":
			var args []interface{}
			if has(cs.Opt, "PD") {
				args = append(args, determinant.PositiveDefinite{Value: true})
			}
			if has(cs.Opt, "log") {
				args = append(args, determinant.LogScale{Value: true})
			}
			if has(cs.Opt, "insitu") {
				args = append(args, &determinant.InSitu{Cholesky: cholesky.InSitu{L: staleMatrix(t, n, sN, sO), S: stale(ad.NewScalar(t, 0), 7.25, sN, sO, 1), T: stale(ad.NewScalar(t, 0), -3.5, sN, sO, 2)}})
			}
			d, err := determinant.Run(A, args...)
			if err != nil {
				return nil, err
			}
			return []ad.ConstScalar{d}, nil
		case "cholesky":
			var args []interface{}
			if has(cs.Opt, "LDL") {
				args = append(args, cholesky.LDL{Value: true})
			}
			if has(cs.Opt, "ForcePD") {
				args = append(args, cholesky.ForcePD{Value: true})
			}
			if has(cs.Opt, "insitu") {
				is := &cholesky.InSitu{L: staleMatrix(t, n, sN, sO), S: stale(ad.NewScalar(t, 0), 7.25, sN, sO, 1), T: stale(ad.NewScalar(t, 0), -3.5, sN, sO, 2)}
				if has(cs.Opt, "LDL") {
					is.D = staleMatrix(t, n, sN, sO)
				}
				args = append(args, is)
			}
			L, D, err := cholesky.Run(A, args...)
			if err != nil {
				return nil, err
			}
			o := matOut(L)
			if has(cs.Opt, "LDL") {
				if D == nil {
					return nil, fmt.Errorf("LDL requested but D is nil")
				}
				o = append(o, matOut(D)...)
			}
			return o, nil
		case "backSubstitution":
			var args []interface{}
			if has(cs.Opt, "insitu") {
				args = append(args, &backSubstitution.InSitu{A: staleMatrix(t, n, sN, sO), X: staleVector(t, n, sN, sO), T: stale(ad.NewScalar(t, 0), 7.25, sN, sO, 1)})
			}
			x, err := backSubstitution.Run(A, v, args...)
			if err != nil {
				return nil, err
			}
			return vecOut(x), nil
		case "hessenberg":
			h, uu, err := hessenbergReduction.Run(A, hessenbergReduction.ComputeU{Value: true})
			if err != nil {
				return nil, err
			}
			if uu == nil {
				return nil, fmt.Errorf("ComputeU requested but U is nil")
			}
			return append(matOut(h), matOut(uu)...), nil
		case "gramSchmidt":
			q, r, err := gramSchmidt.Run(A)
			if err != nil {
				return nil, err
			}
			return append(matOut(q), matOut(r)...), nil
		}
		panic("unknown routine " + cs.Routine)
	})
}

// safe accessors (an output that is a constant has no derivative storage)
func d1(s ad.ConstScalar, i int) float64 {
	if s.GetOrder() < 1 || i >= s.GetN() {
		return 0
	}
	return s.GetDerivative(i)
}
func d2(s ad.ConstScalar, i, j int) float64 {
	if s.GetOrder() < 2 || i >= s.GetN() || j >= s.GetN() {
		return 0
	}
	return s.GetHessian(i, j)
}
