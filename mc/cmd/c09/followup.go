// C09 strengthening (third seeded round):
//
//   - the program continues after the compared call: every object of the case
//     (operands, receiver, returned objects) is then updated IN PLACE through the
//     public element/derivative setters with values that are distinct per object,
//     element and derivative slot, and everything is observed again. An object
//     that shares storage with another one in one variant only (a shallow copy of
//     the Hessian rows, of the gradient slice, of a value pointer, of an element
//     scalar, of a backing array) then shows a foreign value in that variant.
//   - a second-order element state for containers of Real elements (order 2, N=1).
//   - a scalar operand that is an element of the receiver or of a container
//     operand (Obj kind "e").
package main

import (
	"encoding/binary"
	"fmt"
	"math"
	"reflect"
	"strings"

	ad "github.com/pbenner/autodiff"
)

/* second-order element state ---------------------------------------------------- */

// eHess: Real element with value 2, order 2, N=1 (gradient -1, Hessian 0.25); it
// combines with the order-1/N=1 states eDer0 and eJunk of the shared lattice.
// Only offered for Real element types. (common.go is shared with C08 and stays
// untouched: the code is resolved here.)
const eHess = 100

func assignCode(t ElemT, s ad.Scalar, code int) {
	if code == eHess {
		if !t.Real {
			panic("eHess for a non-Real element type")
		}
		ms := s.(ad.MagicScalar)
		ms.SetFloat64(2)
		ms.Alloc(1, 2)
		ms.SetDerivative(0, -1)
		ms.SetHessian(0, 0, 0.25)
		return
	}
	if sp, touch := elemSpec(t, code); touch {
		assign(t, s, sp)
	}
}

func touches(t ElemT, code int) bool {
	if code == eHess {
		return true
	}
	_, touch := elemSpec(t, code)
	return touch
}

func mkVectorX(t ElemT, sparse bool, codes []int) ad.Vector {
	v := newVector(t, sparse, len(codes))
	for i, c := range codes {
		if touches(t, c) {
			assignCode(t, v.At(i), c)
		}
	}
	return v
}

func mkMatrixX(t ElemT, sparse bool, r, c int, codes []int) ad.Matrix {
	m := newMatrix(t, sparse, r, c)
	for i := 0; i < r; i++ {
		for j := 0; j < c; j++ {
			if touches(t, codes[i*c+j]) {
				assignCode(t, m.At(i, j), codes[i*c+j])
			}
		}
	}
	return m
}

/* scalar operand = element of a container --------------------------------------- */

// elementOf returns element i (row-major) of a container through the generic
// mutable accessor; a sparse container gets a stored entry at that position (the
// same in both worlds).
func elementOf(x any, i int) any {
	switch v := x.(type) {
	case ad.Matrix:
		_, c := v.Dims()
		return v.At(i/c, i%c)
	case ad.Vector:
		return v.At(i)
	}
	panic(fmt.Sprintf("element of a %T", x))
}

var elemTypeCache = map[family]reflect.Type{}

// elemTypeOf: dynamic type of what At hands out for a container family.
func elemTypeOf(f family) reflect.Type {
	if t, ok := elemTypeCache[f]; ok {
		return t
	}
	var t reflect.Type
	if f.Kind == "v" {
		t = reflect.TypeOf(newVector(f.Elem, f.Sparse, 1).At(0))
	} else {
		t = reflect.TypeOf(newMatrix(f.Elem, f.Sparse, 1, 1).At(0, 0))
	}
	elemTypeCache[f] = t
	return t
}

// elemRefString names the scalar operands that are container elements: "b=r[i]".
func elemRefString(cs Case) string {
	var parts []string
	for k, a := range cs.A {
		if a.K == "e" {
			parts = append(parts, slotNames[k+1]+"="+slotNames[a.Of]+"[i]")
		}
	}
	return strings.Join(parts, ",")
}

// aliasDesc: object aliases and element aliases of a case ("" when none).
func aliasDesc(cs Case) string {
	al, el := aliasString(cs.Alias), elemRefString(cs)
	switch {
	case al == "":
		return el
	case el == "":
		return al
	}
	return al + "," + el
}

/* follow-up: in-place update of every object ------------------------------------ */

const (
	perturbStride  = 17 // elements per object with their own identity
	perturbMaxObjs = 7  // identities stay below 127 (Int8 elements)
)

// perturbScalar overwrites value and every derivative slot of s in place. All
// numbers are small integers (exact in every element type; id+1 <= 119 fits Int8).
func perturbScalar(s ad.Scalar, id int) {
	if isNilScalar(s) {
		return
	}
	// Real types: SetFloat64 also zeroes the derivative slots in place
	s.SetFloat64(float64(id + 1))
	ms, ok := s.(ad.MagicScalar)
	if !ok {
		return
	}
	o, n := ms.GetOrder(), ms.GetN()
	if o >= 1 {
		for i := 0; i < n; i++ {
			ms.SetDerivative(i, float64(1000+id*16+i))
		}
	}
	if o >= 2 {
		for i := 0; i < n; i++ {
			for j := 0; j < n; j++ {
				ms.SetHessian(i, j, float64(4000+id*16+(i*n+j)%16))
			}
		}
	}
}

// perturb updates object number obj; returns a note when the update itself
// panics (inconsistent object left behind by the call) - part of the observation.
func perturb(x any, obj int) (note string) {
	defer func() {
		if r := recover(); r != nil {
			note = "<update-panic:" + short(r) + ">"
		}
	}()
	base := obj * perturbStride
	switch v := x.(type) {
	case ad.Matrix:
		r, c := v.Dims()
		for i := 0; i < r; i++ {
			for j := 0; j < c; j++ {
				perturbScalar(v.At(i, j), base+(i*c+j)%perturbStride)
			}
		}
	case ad.Vector:
		for i := 0; i < v.Dim(); i++ {
			perturbScalar(v.At(i), base+i%perturbStride)
		}
	case ad.Scalar:
		perturbScalar(v, base)
	}
	return
}

func mutableObject(x any) bool {
	switch v := x.(type) {
	case ad.Matrix, ad.Vector:
		rv := reflect.ValueOf(x)
		return !(rv.Kind() == reflect.Ptr && rv.IsNil())
	case ad.Scalar:
		return !isNilScalar(v)
	}
	return false
}

// followUp continues the program of one world: every distinct object - operands
// first, then the receiver, then returned objects - is updated in place, then all
// of them are observed. elemArg[k] marks arguments that are elements of a
// container (they are updated with their container).
func followUp(recv any, args []any, elemArg []bool, rets []any) (string, int, func() []string) {
	var objs []any
	add := func(x any) {
		if !mutableObject(x) {
			return
		}
		for _, o := range objs {
			if sameObject(o, x) {
				return
			}
		}
		objs = append(objs, x)
	}
	for k, a := range args {
		if k < len(elemArg) && elemArg[k] {
			continue
		}
		add(a)
	}
	add(recv)
	for _, x := range rets {
		add(x)
	}
	var notes strings.Builder
	n := 0
	for i, o := range objs {
		if i >= perturbMaxObjs {
			break
		}
		notes.WriteString(perturb(o, i))
		n++
	}
	// every element is read back through ConstAt; sparse containers are also
	// walked with their iterator (a shared or stale index only shows there), a
	// dense iterator visits exactly the ConstAt cells again
	e := rawEnc{b: make([]byte, 0, 256)}
	e.b = append(e.b, notes.String()...)
	e.any(recv)
	for _, a := range args {
		e.b = append(e.b, '|')
		e.any(a)
	}
	for _, x := range rets {
		// returned objects that are not scalars/containers (iterators) were drained
		// and compared before
		if mutableObject(x) {
			e.b = append(e.b, ';')
			e.any(x)
		}
	}
	// readable form of the same observation slot by slot (receiver, arguments,
	// returned objects), only built for a violation message
	describe := func() []string {
		out := []string{notes.String() + encAny(recv, isSparse(recv))}
		for _, a := range args {
			out = append(out, encAny(a, a != nil && isSparse(a)))
		}
		for _, x := range rets {
			if mutableObject(x) {
				out = append(out, encAny(x, false))
			}
		}
		return out
	}
	return string(e.b), n, describe
}

/* compact observation of the follow-up state -------------------------------------- */

// rawEnc writes the same public state as enc (common.go) - dimensions, every
// element's value, order, N and derivative slots, sparse iterators - as bytes
// instead of formatted numbers (this observation is made for every case).
// Equal observations <=> equal enc strings: zero sign dropped, NaN canonical, a
// stored null scalar inside a sparse container is the same as an absent entry.
type rawEnc struct {
	b []byte
}

func (e *rawEnc) f(v float64) {
	switch {
	case v != v:
		e.b = append(e.b, 'N')
	case v == 0:
		e.b = append(e.b, '0')
	default:
		e.b = binary.LittleEndian.AppendUint64(append(e.b, '='), math.Float64bits(v))
	}
}

func (e *rawEnc) scalar(s ad.ConstScalar, sparse bool) {
	mark := len(e.b)
	defer func() {
		if r := recover(); r != nil {
			e.b = append(e.b[:mark], "<corrupt:"+short(r)+">"...)
		}
	}()
	v := s.GetFloat64()
	if sparse && v == 0 && isNull(s) {
		e.b = append(e.b, 'z')
		return
	}
	o, n := s.GetOrder(), s.GetN()
	e.f(v)
	e.b = append(e.b, 'o', byte(o), byte(n))
	if o >= 1 {
		for i := 0; i < n; i++ {
			e.f(s.GetDerivative(i))
		}
	}
	if o >= 2 {
		for i := 0; i < n; i++ {
			for j := 0; j < n; j++ {
				e.f(s.GetHessian(i, j))
			}
		}
	}
}

func (e *rawEnc) any(x any) {
	mark := len(e.b)
	defer func() {
		if r := recover(); r != nil {
			e.b = append(e.b[:mark], "<panic:"+short(r)+">"...)
		}
	}()
	switch v := x.(type) {
	case ad.ConstMatrix:
		sp := isSparse(v)
		r, c := v.Dims()
		e.b = append(e.b, 'M', byte(r), byte(c))
		for i := 0; i < r; i++ {
			for j := 0; j < c; j++ {
				e.scalar(v.ConstAt(i, j), sp)
			}
		}
		if sp {
			k := 0
			for it := v.ConstIterator(); it.Ok(); it.Next() {
				if k++; k > r*c+2 {
					e.b = append(e.b, "...nonterm"...)
					break
				}
				i, j := it.Index()
				e.b = append(e.b, '@', byte(i), byte(j))
				e.scalar(it.GetConst(), sp)
			}
		}
	case ad.ConstVector:
		sp := isSparse(v)
		n := v.Dim()
		e.b = append(e.b, 'V', byte(n))
		for i := 0; i < n; i++ {
			e.scalar(v.ConstAt(i), sp)
		}
		if sp {
			k := 0
			for it := v.ConstIterator(); it.Ok(); it.Next() {
				if k++; k > n+2 {
					e.b = append(e.b, "...nonterm"...)
					break
				}
				e.b = append(e.b, '@', byte(it.Index()))
				e.scalar(it.GetConst(), sp)
			}
		}
	case ad.ConstScalar:
		e.scalar(v, false)
	case nil:
		e.b = append(e.b, 'n')
	default:
		// float64 / int arguments
		e.b = append(e.b, fmt.Sprint(v)...)
	}
}

// coupledSlots names the slots whose follow-up observation differs between the
// two variants ("r", "a", ..., "ret"): the objects whose independence one
// variant does not preserve.
func coupledSlots(g, c []string, nargs int) string {
	var d []string
	for i := 0; i < len(g) || i < len(c); i++ {
		if i < len(g) && i < len(c) && g[i] == c[i] {
			continue
		}
		name := "ret"
		if i <= nargs {
			name = slotNames[i]
		}
		if len(d) == 0 || d[len(d)-1] != name {
			d = append(d, name)
		}
	}
	return strings.Join(d, ",")
}
