// C09: generic and concrete-typed (capital letter) methods are interchangeable.
//
// Pairs (M, UPPER(M)) are discovered by reflection on every scalar / vector /
// matrix type; operands are enumerated exhaustively from small lattices; both
// variants run on separately built, equal operands and the complete public state
// of receiver, operands and return value must agree. "Equal operands" includes
// calls in which one object is passed in several positions (r.ADD(r, b),
// v.VADDV(v, w), m.MDOTM(m, b), r.MUL(a, a)): for every pair all alias
// configurations of {receiver, operands} that the parameter types allow are
// enumerated as well, both worlds built with the same configuration. This is a
// pure generic-vs-concrete differential; whether an aliased call computes the
// alias-free result is C08's question. The scalar operand of a vector-scalar /
// matrix-scalar pair is also taken from inside the receiver or a container
// operand (r.MDIVS(a, r.AT(0,0))). After an agreeing call the program continues
// in both worlds with an in-place update of every object and everything is
// compared again (followup.go): the two variants must also leave the same
// (in)dependence between result and operands.
package main

import (
	"encoding/json"
	"fmt"
	"reflect"
	"sort"
	"strconv"
	"strings"

	ad "github.com/pbenner/autodiff"
	"verif/mc/vf"
)

/* type tables --------------------------------------------------------------- */

type family struct {
	Kind   string // "s","v","m"
	Elem   ElemT
	Sparse bool
}

var (
	scalarOf     = map[reflect.Type]family{}
	vectorOf     = map[reflect.Type]family{}
	matrixOf     = map[reflect.Type]family{}
	tConstVector = reflect.TypeOf((*ad.ConstVector)(nil)).Elem()
	tConstMatrix = reflect.TypeOf((*ad.ConstMatrix)(nil)).Elem()
	tConstScalar = reflect.TypeOf((*ad.ConstScalar)(nil)).Elem()
	tFloat64     = reflect.TypeOf(float64(0))
	tInt         = reflect.TypeOf(int(0))
)

type proto struct {
	fam family
	typ reflect.Type
}

var protos []proto

// types that exist but are immutable (no capital-letter twins are expected; they
// are still scanned so that a twin added later is noticed)
var constProtos = []any{
	ad.ConstFloat64(0), ad.ConstFloat32(0), ad.ConstInt(0), ad.ConstInt8(0), ad.ConstInt16(0), ad.ConstInt32(0), ad.ConstInt64(0),
	ad.UnsafeSparseConstFloat64Vector(nil, nil, 0), ad.UnsafeSparseConstFloat32Vector(nil, nil, 0), ad.UnsafeSparseConstIntVector(nil, nil, 0),
	ad.UnsafeSparseConstInt8Vector(nil, nil, 0), ad.UnsafeSparseConstInt16Vector(nil, nil, 0), ad.UnsafeSparseConstInt32Vector(nil, nil, 0), ad.UnsafeSparseConstInt64Vector(nil, nil, 0),
}

func initTypes() {
	for _, e := range elemTypes {
		f := family{"s", e, false}
		t := reflect.TypeOf(ad.NewScalar(e.ST, 0))
		scalarOf[t] = f
		protos = append(protos, proto{f, t})
	}
	for _, sp := range []bool{false, true} {
		for _, e := range elemTypes {
			f := family{"v", e, sp}
			t := reflect.TypeOf(newVector(e, sp, 0))
			vectorOf[t] = f
			protos = append(protos, proto{f, t})
		}
	}
	for _, sp := range []bool{false, true} {
		for _, e := range elemTypes {
			f := family{"m", e, sp}
			t := reflect.TypeOf(newMatrix(e, sp, 0, 0))
			matrixOf[t] = f
			protos = append(protos, proto{f, t})
		}
	}
}

/* pair discovery ------------------------------------------------------------ */

type pairT struct {
	fam      family
	typ      reflect.Type
	gen, con reflect.Method
	plan     []string // per concrete parameter: "s","v","m","cv","cm","f","i"
	skip     string
}

func isAllCaps(n string) bool {
	has := false
	for _, r := range n {
		switch {
		case r >= 'A' && r <= 'Z':
			has = true
		case r == '_' || (r >= '0' && r <= '9'):
		default:
			return false
		}
	}
	return has
}

// explicit twins whose generic name is not the literal lower-case form
var namedTwin = map[string]string{"APPEND": "AppendVector"}

// capital methods that are deliberately different operations, not twins
var notTwin = map[string]string{"AT_": "non-allocating accessor, by design different from At"}

func findPairs(p proto) []pairT {
	t := p.typ
	byUpper := map[string]reflect.Method{}
	for i := 0; i < t.NumMethod(); i++ {
		m := t.Method(i)
		if !isAllCaps(m.Name) {
			byUpper[strings.ToUpper(m.Name)] = m
		}
	}
	var out []pairT
	for i := 0; i < t.NumMethod(); i++ {
		con := t.Method(i)
		if !isAllCaps(con.Name) {
			continue
		}
		if _, no := notTwin[con.Name]; no {
			continue
		}
		var gen reflect.Method
		ok := false
		if g, has := namedTwin[con.Name]; has {
			gen, ok = t.MethodByName(g)
		}
		if !ok {
			gen, ok = byUpper[con.Name]
		}
		if !ok && strings.Contains(con.Name, "ITERATOR") {
			gen, ok = byUpper[strings.ReplaceAll(con.Name, "_", "")]
		}
		if !ok {
			continue
		}
		pr := pairT{fam: p.fam, typ: t, gen: gen, con: con}
		if gen.Type.NumIn() != con.Type.NumIn() {
			pr.skip = "different arity"
		} else {
			for k := 1; k < con.Type.NumIn(); k++ {
				ct, gt := con.Type.In(k), gen.Type.In(k)
				if !ct.AssignableTo(gt) {
					pr.skip = fmt.Sprintf("parameter %d: %v not assignable to %v", k, ct, gt)
					break
				}
				switch {
				case ct == tFloat64:
					pr.plan = append(pr.plan, "f")
				case ct == tInt:
					pr.plan = append(pr.plan, "i")
				case ct == tConstVector:
					pr.plan = append(pr.plan, "cv")
				case ct == tConstMatrix:
					pr.plan = append(pr.plan, "cm")
				default:
					if _, ok := scalarOf[ct]; ok {
						pr.plan = append(pr.plan, "s")
					} else if _, ok := vectorOf[ct]; ok {
						pr.plan = append(pr.plan, "v")
					} else if _, ok := matrixOf[ct]; ok {
						pr.plan = append(pr.plan, "m")
					} else {
						pr.skip = fmt.Sprintf("parameter %d of unsupported type %v", k, ct)
					}
				}
			}
		}
		out = append(out, pr)
	}
	sort.Slice(out, func(i, j int) bool { return out[i].con.Name < out[j].con.Name })
	return out
}

/* case description ---------------------------------------------------------- */

type Obj struct {
	K    string `json:"k"` // s v m f i; e = the scalar that is element I (row-major) of the container in slot Of
	T    string `json:"t,omitempty"`
	Sp   bool   `json:"sparse,omitempty"`
	Rows int    `json:"rows,omitempty"`
	Cols int    `json:"cols,omitempty"`
	E    []int  `json:"e,omitempty"`
	S    *SSpec `json:"s,omitempty"`
	F    string `json:"f,omitempty"`
	I    int    `json:"i,omitempty"`
	Of   int    `json:"of,omitempty"` // K=="e": slot of the container (0 = receiver, k = argument k-1)
}

type Case struct {
	Type string `json:"type"`
	Gen  string `json:"generic"`
	Con  string `json:"concrete"`
	R    Obj    `json:"receiver"`
	A    []Obj  `json:"args"`
	// Alias: block id per slot (slot 0 = receiver, slot k = argument k-1); slots
	// with equal ids are ONE object passed in several positions. nil = all distinct.
	Alias []int `json:"alias,omitempty"`
}

var slotNames = []string{"r", "a", "b", "c", "d", "e", "f"}

// aliasString names the multi-member blocks of an alias vector ("r=a", "a=b",
// "r=a=b", "r=b,a=c"); "" when every slot is its own object.
func aliasString(alias []int) string {
	if alias == nil {
		return ""
	}
	var parts []string
	done := map[int]bool{}
	for i, b := range alias {
		if done[b] {
			continue
		}
		done[b] = true
		m := []string{slotNames[i]}
		for j := i + 1; j < len(alias); j++ {
			if alias[j] == b {
				m = append(m, slotNames[j])
			}
		}
		if len(m) > 1 {
			parts = append(parts, strings.Join(m, "="))
		}
	}
	return strings.Join(parts, ",")
}

// checkAlias: an alias vector is well formed when it covers every slot and
// only joins slots with identical specifications.
func checkAlias(cs Case) error {
	for k, a := range cs.A {
		if a.K != "e" {
			continue
		}
		if a.Of < 0 || a.Of > len(cs.A) || a.Of == k+1 {
			return fmt.Errorf("argument %d: element of slot %d", k, a.Of)
		}
		c := cs.R
		if a.Of > 0 {
			c = cs.A[a.Of-1]
		}
		if (c.K != "v" && c.K != "m") || a.I < 0 || a.I >= len(c.E) {
			return fmt.Errorf("argument %d: element %d of slot %d does not exist", k, a.I, a.Of)
		}
	}
	if cs.Alias == nil {
		return nil
	}
	if len(cs.Alias) != 1+len(cs.A) {
		return fmt.Errorf("alias vector of length %d for %d slots", len(cs.Alias), 1+len(cs.A))
	}
	specs := append([]Obj{cs.R}, cs.A...)
	for i := range specs {
		for j := 0; j < i; j++ {
			if cs.Alias[i] == cs.Alias[j] {
				if specs[i].K == "f" || specs[i].K == "i" || specs[i].K == "e" || !reflect.DeepEqual(specs[i], specs[j]) {
					return fmt.Errorf("alias joins slots %d and %d with different specifications", j, i)
				}
			}
		}
	}
	return nil
}

// buildWorld builds receiver and arguments of a case: one fresh object per
// alias block, passed in every slot of the block.
func buildWorld(cs Case) (any, []any) {
	r := build(cs.R)
	as := make([]any, len(cs.A))
	for i, a := range cs.A {
		if a.K == "e" {
			continue // second pass
		}
		if cs.Alias != nil {
			if cs.Alias[i+1] == cs.Alias[0] {
				as[i] = r
				continue
			}
			shared := false
			for j := 0; j < i; j++ {
				if cs.Alias[j+1] == cs.Alias[i+1] {
					as[i], shared = as[j], true
					break
				}
			}
			if shared {
				continue
			}
		}
		as[i] = build(a)
	}
	// scalar operands that are elements of the receiver / of a container operand
	for i, a := range cs.A {
		if a.K == "e" {
			if a.Of == 0 {
				as[i] = elementOf(r, a.I)
			} else {
				as[i] = elementOf(as[a.Of-1], a.I)
			}
		}
	}
	return r, as
}

func elemArgs(cs Case) []bool {
	var out []bool
	for k, a := range cs.A {
		if a.K == "e" {
			if out == nil {
				out = make([]bool, len(cs.A))
			}
			out[k] = true
		}
	}
	return out
}

func build(o Obj) any {
	switch o.K {
	case "s":
		return mkScalar(elemByName(o.T), *o.S)
	case "v":
		return mkVectorX(elemByName(o.T), o.Sp, o.E)
	case "m":
		return mkMatrixX(elemByName(o.T), o.Sp, o.Rows, o.Cols, o.E)
	case "f":
		return fval(o.F)
	case "i":
		return o.I
	}
	panic("bad obj kind " + o.K)
}

/* observation ---------------------------------------------------------------- */

func sameObject(a, b any) bool {
	if a == nil || b == nil {
		return false
	}
	va, vb := reflect.ValueOf(a), reflect.ValueOf(b)
	if va.Type() != vb.Type() {
		return false
	}
	switch va.Kind() {
	case reflect.Ptr:
		return va.Pointer() == vb.Pointer()
	case reflect.Slice:
		return va.Len() == vb.Len() && (va.Len() == 0 || va.Pointer() == vb.Pointer())
	case reflect.Struct:
		fa, fb := va.FieldByName("ptr"), vb.FieldByName("ptr")
		if fa.IsValid() && fa.Kind() == reflect.Ptr {
			return fa.Pointer() == fb.Pointer()
		}
	}
	return false
}

func encAny(x any, iter bool) string {
	switch v := x.(type) {
	case nil:
		return "<nil>"
	case ad.ConstMatrix:
		return encMatrix(v, false, iter)
	case ad.ConstVector:
		return encVector(v, false, iter)
	case ad.ConstScalar:
		return encScalar(v, false)
	case float64:
		return fstr(v)
	case int, bool:
		return fmt.Sprint(v)
	}
	return fmt.Sprintf("<%T>", x)
}

// walk drains an iterator object through its Ok/Index/Next and value accessor.
func walk(it reflect.Value, cap int) string {
	var sb strings.Builder
	ok := it.MethodByName("Ok")
	next := it.MethodByName("Next")
	idx := it.MethodByName("Index")
	get := it.MethodByName("GetConst")
	if !get.IsValid() {
		get = it.MethodByName("GET")
	}
	if !ok.IsValid() || !next.IsValid() || !idx.IsValid() || !get.IsValid() {
		return "<not-an-iterator>"
	}
	sb.WriteString("iter(")
	for k := 0; ok.Call(nil)[0].Bool(); k++ {
		if k > cap {
			sb.WriteString("...nonterm")
			break
		}
		for _, v := range idx.Call(nil) {
			sb.WriteString(strconv.Itoa(int(v.Int())))
			sb.WriteByte('.')
		}
		sb.WriteByte('=')
		for k, v := range get.Call(nil) {
			if isNilScalarV(v) {
				// an absent entry of an *operand* is the value zero in both APIs
				// (generic: constant 0, typed: nil scalar); only the receiver's
				// absence (first value) is reported as such by both
				if k == 0 {
					sb.WriteString("<nil>")
				} else {
					sb.WriteString("0")
				}
			} else if cs, ok := v.Interface().(ad.ConstScalar); ok {
				sb.WriteString(encScalar(cs, false))
			} else {
				sb.WriteString("<?>")
			}
			sb.WriteByte('/')
		}
		sb.WriteByte(';')
		next.Call(nil)
	}
	sb.WriteString(")")
	return sb.String()
}

type observation struct {
	panicked string // "" or class
	pmsg     string
	ret      string
	state    string          // receiver + args after the call
	relems   []string        // receiver, element by element
	probe    string          // receiver + args after writing through the return value
	after    string          // receiver + args + returned objects after the in-place update of every object
	nobj     int             // objects updated by the follow-up
	describe func() []string // readable form of after, slot by slot
}

// writeThrough stores 9 into every element of a returned scalar/container so
// that storage sharing between return value and receiver/operands is observable.
func writeThrough(x any) {
	defer func() { recover() }()
	switch v := x.(type) {
	case ad.Matrix:
		r, c := v.Dims()
		for i := 0; i < r; i++ {
			for j := 0; j < c; j++ {
				v.At(i, j).SetFloat64(9)
			}
		}
	case ad.Vector:
		for i := 0; i < v.Dim(); i++ {
			v.At(i).SetFloat64(9)
		}
	case ad.Scalar:
		if !isNilScalar(v) {
			v.SetFloat64(9)
		}
	}
}

func elemsOf(x any) (out []string) {
	defer func() { recover() }()
	switch v := x.(type) {
	case ad.ConstMatrix:
		r, c := v.Dims()
		for i := 0; i < r; i++ {
			for j := 0; j < c; j++ {
				out = append(out, encElem(v.ConstAt(i, j), false, isSparse(v)))
			}
		}
	case ad.ConstVector:
		for i := 0; i < v.Dim(); i++ {
			out = append(out, encElem(v.ConstAt(i), false, isSparse(v)))
		}
	}
	return
}

// runVariant calls m and observes. elemArg != nil / follow: the program continues
// with the in-place update of every object (followUp).
func runVariant(m reflect.Method, recv any, args []any, follow bool, elemArg []bool) (o observation) {
	in := make([]reflect.Value, 0, len(args)+1)
	in = append(in, reflect.ValueOf(recv))
	for _, a := range args {
		in = append(in, reflect.ValueOf(a))
	}
	var out []reflect.Value
	p := call(func() { out = m.Func.Call(in) })
	stateOf := func() string {
		var sb strings.Builder
		sb.WriteString(encAny(recv, true))
		for _, a := range args {
			sb.WriteString(" | ")
			sb.WriteString(encAny(a, true))
		}
		return sb.String()
	}
	if p != nil {
		o.panicked, o.pmsg = panicClass(p), short(p)
		return
	}
	var rs []string
	var rets []any
	for _, v := range out {
		if !v.IsValid() || ((v.Kind() == reflect.Interface || v.Kind() == reflect.Ptr) && v.IsNil()) {
			rs = append(rs, "<nil>")
			continue
		}
		x := v.Interface()
		rets = append(rets, x)
		tag := ""
		if sameObject(x, recv) {
			tag = "=recv:"
		}
		if _, isIt := v.Type().MethodByName("Ok"); isIt {
			if _, ok := v.Type().MethodByName("Next"); ok {
				rs = append(rs, walk(v, 64))
				continue
			}
		}
		rs = append(rs, tag+encAny(x, false))
	}
	o.ret = strings.Join(rs, " ; ")
	o.state = stateOf()
	o.relems = elemsOf(recv)
	wrote := false
	for _, x := range rets {
		if !sameObject(x, recv) {
			switch x.(type) {
			case ad.Matrix, ad.Vector, ad.Scalar:
				writeThrough(x)
				wrote = true
			}
		}
	}
	// nothing written (the call returned the receiver itself or plain values):
	// the state is what was just observed
	o.probe = o.state
	if wrote {
		o.probe = stateOf()
	}
	if follow {
		o.after, o.nobj, o.describe = followUp(recv, args, elemArg, rets)
	}
	return
}

/* operand classes for violation keys ----------------------------------------- */

func signClass(s string) string {
	v := fval(s)
	switch {
	case v != v:
		return "nan"
	case v > 1e300:
		return "+inf"
	case v < -1e300:
		return "-inf"
	case v < 0:
		return "neg"
	case v > 0:
		return "pos"
	}
	return "zero"
}

func codeCat(o Obj, i int) string {
	if i >= len(o.E) {
		return "?"
	}
	switch o.E[i] {
	case eZero:
		if o.Sp {
			return "absent"
		}
		return "0"
	case eOne, eM2:
		return "nz"
	case eStored:
		if o.Sp {
			return "stored0"
		}
		return "0"
	case eDer0:
		if elemByName(o.T).Real {
			return "0+deriv"
		}
		if o.Sp {
			return "absent"
		}
		return "0"
	case eJunk:
		return "junk"
	case eHess:
		return "nz+hess"
	}
	return "nz"
}

// elementClass: the local configuration at receiver element i (receiver prior
// content and the same element of every operand of equal size; scalar operands
// by sign).
func elementClass(cs Case, i int) string {
	ops := map[string]bool{}
	var sc []string
	names := "abcd"
	for k, a := range cs.A {
		switch a.K {
		case "v", "m":
			if len(a.E) == len(cs.R.E) {
				ops[codeCat(a, i)] = true
			}
		case "s":
			sc = append(sc, string(names[k])+":"+signClass(a.S.V))
		case "e":
			sc = append(sc, string(names[k])+":elem-of-"+slotNames[a.Of])
		}
	}
	var o []string
	for _, k := range []string{"absent", "stored0", "0", "0+deriv", "nz", "nz+hess", "junk"} {
		if ops[k] {
			o = append(o, k)
		}
	}
	p := "r:" + codeCat(cs.R, i) + ",ops:{" + strings.Join(o, ",") + "}"
	if len(sc) > 0 {
		p += "," + strings.Join(sc, ",")
	}
	return p
}

// exoticClass: which special lattice features occur anywhere in the operands.
func exoticClass(cs Case) string {
	has := map[string]bool{}
	scan := func(o Obj) {
		for i := range o.E {
			switch c := codeCat(o, i); c {
			case "absent", "stored0", "0+deriv":
				has[c] = true
			case "nz+hess":
				has["order2"] = true
			}
		}
	}
	scan(cs.R)
	for _, a := range cs.A {
		scan(a)
	}
	var f []string
	for _, k := range []string{"absent", "stored0", "0+deriv", "order2"} {
		if has[k] {
			f = append(f, k)
		}
	}
	if len(f) == 0 {
		return "plain"
	}
	return strings.Join(f, "+")
}

// scalarClass: sign of the first scalar operand and its order relation to the second
func scalarClass(cs Case) string {
	var v []float64
	first := ""
	for _, a := range cs.A {
		if a.K == "s" {
			if first == "" {
				first = a.S.V
			}
			v = append(v, fval(a.S.V))
		}
	}
	if len(v) == 0 {
		return "r:" + signClass(cs.R.S.V)
	}
	c := "a:" + signClass(first)
	if len(v) >= 2 {
		switch {
		case v[0] < v[1]:
			c += ",a<b"
		case v[0] > v[1]:
			c += ",a>b"
		case v[0] == v[1]:
			c += ",a=b"
		default:
			c += ",unordered"
		}
	}
	return c
}

/* running one case ----------------------------------------------------------- */

var methodCache = map[string][2]reflect.Method{}

func methodsOf(cs Case) (gen, con reflect.Method, recvT reflect.Type, ok bool) {
	for _, p := range protos {
		if p.typ.String() == cs.Type {
			g, ok1 := p.typ.MethodByName(cs.Gen)
			c, ok2 := p.typ.MethodByName(cs.Con)
			return g, c, p.typ, ok1 && ok2
		}
	}
	return
}

// followObjs: objects updated by the follow-up of the last agreeing case (counter).
var followObjs int

// runCase returns ("","") if both variants agree.
func runCase(gen, con reflect.Method, cs Case) (key, what, outcome string) {
	r1, a1 := buildWorld(cs)
	r2, a2 := buildWorld(cs)
	ea := elemArgs(cs)
	og := runVariant(gen, r1, a1, true, ea)
	oc := runVariant(con, r2, a2, true, ea)
	diff, detail, class := "", "", ""
	switch {
	case og.panicked != "" && oc.panicked != "":
		return "", "", "both-panic"
	case og.panicked != "" || oc.panicked != "":
		diff = "panic-mismatch"
		class = exoticClass(cs)
		detail = fmt.Sprintf("%s: %s %q; %s: %s %q", cs.Gen, orOK(og.panicked), og.pmsg, cs.Con, orOK(oc.panicked), oc.pmsg)
	case og.state != oc.state:
		diff = "operand-state"
		class = exoticClass(cs)
		detail = fmt.Sprintf("after %s: %s; after %s: %s", cs.Gen, og.state, cs.Con, oc.state)
		if len(og.relems) != len(oc.relems) {
			diff = "receiver-dims"
		} else {
			for i := range og.relems {
				if og.relems[i] != oc.relems[i] {
					diff = "receiver-element"
					class = elementClass(cs, i)
					break
				}
			}
		}
		if cs.R.K == "s" {
			diff, class = "receiver-"+scalarDiff(og.state, oc.state), scalarClass(cs)
		} else if diff == "operand-state" && stripIter(og.state) == stripIter(oc.state) {
			diff = "iteration-set"
		}
	case og.ret != oc.ret:
		diff = "return-value"
		class = exoticClass(cs)
		if cs.R.K == "s" {
			class = scalarClass(cs)
		}
		detail = fmt.Sprintf("%s returns %s; %s returns %s", cs.Gen, og.ret, cs.Con, oc.ret)
	case og.probe != oc.probe:
		diff = "storage-sharing-of-return-value"
		class = exoticClass(cs)
		detail = fmt.Sprintf("after writing through the value returned by %s: %s; by %s: %s", cs.Gen, og.probe, cs.Con, oc.probe)
	case og.after != oc.after:
		// equal right after the call, different once the program continues: one
		// variant's result shares storage with an operand (or the other way round)
		diff = "independence-after-update"
		dg, dc := og.describe(), oc.describe()
		// key by the objects that are coupled in one variant only, not by operand values
		class = "differs:" + coupledSlots(dg, dc, len(cs.A))
		detail = fmt.Sprintf("every object updated in place (distinct numbers per object/element/slot) after %s: %s; after %s: %s", cs.Gen, strings.Join(dg, " | "), cs.Con, strings.Join(dc, " | "))
	default:
		followObjs = og.nobj
		return "", "", "agree"
	}
	tn := strings.TrimPrefix(strings.TrimPrefix(cs.Type, "*"), "autodiff.")
	if al := aliasDesc(cs); al != "" {
		tn += "|alias:" + al
	}
	key = fmt.Sprintf("%s/%s|%s|%s|%s", cs.Gen, cs.Con, tn, class, diff)
	return key, detail, "differ:" + diff
}

// scalarDiff: which part of the receiver (first " | " separated field) differs
func scalarDiff(a, b string) string {
	ra, rb := strings.SplitN(a, " | ", 2)[0], strings.SplitN(b, " | ", 2)[0]
	if ra == rb {
		return "operand-state"
	}
	sa, sb := strings.SplitN(ra, "{", 2), strings.SplitN(rb, "{", 2)
	switch {
	case sa[0] != sb[0]:
		return "value"
	case len(sa) != len(sb) || (len(sa) == 2 && sa[1][:4] != sb[1][:4]):
		return "order-N"
	}
	return "derivatives"
}

func orOK(s string) string {
	if s == "" {
		return "ok"
	}
	return s
}

func stripIter(s string) string {
	for {
		i := strings.Index(s, "it(")
		if i < 0 {
			return s
		}
		j := strings.Index(s[i:], ")")
		if j < 0 {
			return s[:i]
		}
		s = s[:i] + s[i+j+1:]
	}
}

/* enumeration ---------------------------------------------------------------- */

type explorer struct {
	c    *vf.Ctx
	idx  int64
	dimV int // max vector dimension
	dimM int // max matrix dimension
	seen map[string]bool
}

var floatGrid = []string{"0", "1", "-2", "0.5", "-0.5", "2", "20", "-40", "40", "+Inf", "-Inf", "NaN"}
var intGrid = []string{"0", "1", "-2", "2", "-1", "3", "-3", "100", "-100"}

func scalarGrid(e ElemT, recvPrior bool) []SSpec {
	var out []SSpec
	if recvPrior {
		// receiver prior content: sign classes x jets
		for _, v := range []string{"0", "5", "-3"} {
			out = append(out, SSpec{V: v})
			if e.Real {
				out = append(out, SSpec{V: v, K: 1, D: 2}, SSpec{V: v, K: 2, D: 2})
			}
		}
		return out
	}
	g := intGrid
	if e.Float {
		g = floatGrid
	}
	for _, v := range g {
		out = append(out, SSpec{V: v})
	}
	if e.Real {
		for _, v := range g {
			out = append(out, SSpec{V: v, K: 1, D: 0})
		}
		for _, v := range g {
			out = append(out, SSpec{V: v, K: 2, D: 1})
		}
	}
	return out
}

// scalars used as arguments of container operations
func containerScalarGrid(e ElemT) []SSpec {
	out := []SSpec{{V: "0"}, {V: "1"}, {V: "-2"}}
	if e.Real {
		out = append(out, SSpec{V: "0", K: 3, D: 0}, SSpec{V: "3", K: 3, D: 1})
	}
	return out
}

func (x *explorer) dataAlphabet(f family, cells int, pos int) []int {
	// small objects get the full lattice, larger ones fewer element states
	limS, limD := 2, 2
	if x.c.Thorough() {
		limS, limD = 4, 4
	}
	if cells > 6 || (cells > 4 && pos > 0) {
		return []int{eZero, eOne}
	}
	a := []int{eZero, eOne, eM2}
	if f.Sparse && (cells <= limS || (pos == 0 && cells <= 4)) {
		a = append(a, eStored)
	}
	if f.Elem.Real && cells <= limD {
		a = append(a, eDer0)
	}
	// second-order element (Hessian storage) in the smallest containers, both tiers
	if f.Elem.Real && cells <= 2 {
		a = append(a, eHess)
	}
	return a
}

func isMathOp(con string) bool {
	if con == "OUTER" || con == "MDOTM" || con == "MDOTV" || con == "VDOTM" {
		return true
	}
	if len(con) == 5 && (con[0] == 'V' || con[0] == 'M') && (con[4] == 'V' || con[4] == 'M' || con[4] == 'S') {
		return true
	}
	return false
}

// receiver contents
func (x *explorer) recvContents(pr pairT, rows, cols int, f func([]int)) {
	cells := rows * cols
	fam := pr.fam
	if !isMathOp(pr.con.Name) {
		a := x.dataAlphabet(fam, cells, 0)
		if pr.con.Name == "SET" {
			a = append(a, eJunk)
		}
		product(a, cells, f)
		return
	}
	if fam.Kind == "v" {
		a := []int{eZero, eJunk}
		if fam.Sparse {
			a = []int{eZero, eStored, eJunk}
		}
		product(a, cells, f)
		return
	}
	pats := []int{eZero, eJunk}
	if fam.Sparse {
		pats = []int{eZero, eStored, eJunk}
	}
	for _, p := range pats {
		e := make([]int, cells)
		for i := range e {
			e[i] = p
		}
		f(e)
		if cells == 0 {
			return
		}
	}
	if cells >= 2 {
		e := make([]int, cells)
		for i := range e {
			if i%2 == 0 {
				e[i] = eJunk
			}
		}
		f(e)
	}
}

func intTuples(con string, fam family, rows, cols, nint int) [][]int {
	var out [][]int
	rng := func(n int, f func(i, j int)) {
		for i := 0; i <= n; i++ {
			for j := i; j <= n; j++ {
				f(i, j)
			}
		}
	}
	switch {
	case nint == 0:
		return [][]int{{}}
	case fam.Kind == "v" && con == "SLICE" && nint == 2:
		rng(rows, func(i, j int) { out = append(out, []int{i, j}) })
	case fam.Kind == "v" && nint == 1:
		n := rows
		if con == "ITERATOR_FROM" {
			n++
		}
		for i := 0; i < n; i++ {
			out = append(out, []int{i})
		}
	case fam.Kind == "m" && con == "SLICE" && nint == 4:
		rng(rows, func(i, j int) { rng(cols, func(k, l int) { out = append(out, []int{i, j, k, l}) }) })
	case fam.Kind == "m" && con == "ROW" && nint == 1:
		for i := 0; i < rows; i++ {
			out = append(out, []int{i})
		}
	case fam.Kind == "m" && con == "COL" && nint == 1:
		for i := 0; i < cols; i++ {
			out = append(out, []int{i})
		}
	case fam.Kind == "m" && nint == 2:
		for i := 0; i < rows; i++ {
			for j := 0; j < cols; j++ {
				out = append(out, []int{i, j})
			}
		}
	default:
		product([]int{0, 1}, nint, func(t []int) { out = append(out, cp(t)) })
	}
	return out
}

type shape struct{ r, c int }

// aliasPartitions: every set partition of the slots whose multi-member blocks
// join only slots of one non-empty class (= the same concrete type, so that one
// object can be passed in all of them); the all-distinct partition comes first.
func aliasPartitions(classes []string) [][]int {
	var out [][]int
	setPartitions(len(classes), func(blocks []int, nb int) {
		for i := range blocks {
			for j := 0; j < i; j++ {
				if blocks[i] == blocks[j] && (classes[i] == "" || classes[i] != classes[j]) {
					return
				}
			}
		}
		out = append(out, cp(blocks))
	})
	for i, j := 0, len(out)-1; i < j; i, j = i+1, j-1 {
		out[i], out[j] = out[j], out[i]
	}
	return out
}

func blockCount(blocks []int) int {
	n := 0
	for _, b := range blocks {
		if b+1 > n {
			n = b + 1
		}
	}
	return n
}

// aliasOrNil: the alias vector of a case (nil for the all-distinct partition)
func aliasOrNil(blocks []int) []int {
	if blockCount(blocks) == len(blocks) {
		return nil
	}
	return cp(blocks)
}

func (x *explorer) shapesOf(kind string) []shape {
	var out []shape
	if kind == "v" {
		for n := 0; n <= x.dimV; n++ {
			out = append(out, shape{n, 1})
		}
		return out
	}
	for r := 0; r <= x.dimM; r++ {
		for c := 0; c <= x.dimM; c++ {
			out = append(out, shape{r, c})
		}
	}
	return out
}

func fill(n, code int) []int {
	e := make([]int, n)
	for i := range e {
		e[i] = code
	}
	return e
}

func (x *explorer) emit(pr pairT, cs Case) {
	x.idx++
	if !x.c.Mine(x.idx) {
		return
	}
	c := x.c
	c.Eval(1)
	key, what, outcome := runCase(pr.gen, pr.con, cs)
	if outcome == "agree" {
		// both variants returned normally and agreed: the follow-up was compared
		c.Count("followup:cases_continued", 1)
		c.Count("followup:objects_updated_in_place", int64(followObjs))
	}
	if er := elemRefString(cs); er != "" {
		c.Count("elem-alias:"+pr.fam.Kind+":"+pr.con.Name+":"+er, 1)
	}
	if al := aliasDesc(cs); al != "" {
		c.Outcome(pr.fam.Kind + ":aliased:" + outcome)
		c.Count("aliased:"+pr.fam.Kind+":"+pr.con.Name+":"+al, 1)
	} else {
		c.Outcome(pr.fam.Kind + ":" + outcome)
	}
	c.Count("cases:"+pr.fam.Kind+":"+pr.con.Name, 1)
	if outcome != "both-panic" {
		c.Nontrivial(1)
	}
	if key != "" {
		c.Violate(key, what, x.idx, cs)
	}
	if x.idx%200003 == 1 {
		c.Sample(cs)
	}
}

func (x *explorer) explorePair(pr pairT) {
	tname := pr.typ.String()
	fam := pr.fam
	base := Case{Type: tname, Gen: pr.gen.Name, Con: pr.con.Name}
	if fam.Kind == "s" {
		// scalar receiver, scalar / float arguments
		var argGrids [][]Obj
		// alias classes: slots of one class can be the same object
		classes := make([]string, 1+len(pr.plan))
		classes[0] = "s:" + fam.Elem.Name
		for k, p := range pr.plan {
			var g []Obj
			switch p {
			case "s":
				ft := scalarOf[pr.con.Type.In(k+1)]
				specs := scalarGrid(ft.Elem, false)
				classes[k+1] = "s:" + ft.Elem.Name
				// a temporary (LOGADD/LOGSUB third operand) only needs prior contents;
				// it is scratch space that must be a dedicated object: never aliased
				if (pr.con.Name == "LOGADD" || pr.con.Name == "LOGSUB") && k == 2 {
					classes[k+1] = ""
					specs = []SSpec{{V: "0"}}
					if ft.Elem.Real {
						specs = append(specs, SSpec{V: "5", K: 2, D: 2})
					}
				}
				for i := range specs {
					g = append(g, Obj{K: "s", T: ft.Elem.Name, S: &specs[i]})
				}
			case "f":
				for _, f := range []string{"1e-08", "1.5"} {
					g = append(g, Obj{K: "f", F: f})
				}
			case "i":
				for _, i := range []int{0, 1, 2} {
					g = append(g, Obj{K: "i", I: i})
				}
			default:
				x.c.Note("scalar pair with container argument skipped: " + tname + "." + pr.con.Name)
				return
			}
			argGrids = append(argGrids, g)
		}
		toObjs := func(specs []SSpec) []Obj {
			g := make([]Obj, len(specs))
			for i := range specs {
				g[i] = Obj{K: "s", T: fam.Elem.Name, S: &specs[i]}
			}
			return g
		}
		recvPrior := toObjs(scalarGrid(fam.Elem, true))
		recvOperand := toObjs(scalarGrid(fam.Elem, false))
		// every alias configuration of {receiver, scalar operands}; all distinct first
		for _, blocks := range aliasPartitions(classes) {
			blocks := blocks
			nb, alias := blockCount(blocks), aliasOrNil(blocks)
			grids := make([][]Obj, nb)
			for b := 0; b < nb; b++ {
				first, size := -1, 0
				for i, bb := range blocks {
					if bb == b {
						if first < 0 {
							first = i
						}
						size++
					}
				}
				switch {
				case first == 0 && size == 1:
					grids[b] = recvPrior
				case first == 0:
					// the receiver is also an operand: its content is an operand value
					grids[b] = recvOperand
				default:
					grids[b] = argGrids[first-1]
				}
			}
			slots := make([]Obj, len(blocks))
			var rec func(b int)
			rec = func(b int) {
				if b == nb {
					cs := base
					cs.R = slots[0]
					cs.A = append([]Obj(nil), slots[1:]...)
					cs.Alias = alias
					x.emit(pr, cs)
					return
				}
				for _, o := range grids[b] {
					for i, bb := range blocks {
						if bb == b {
							slots[i] = o
						}
					}
					rec(b + 1)
				}
			}
			rec(0)
		}
		if len(pr.plan) == 2 && pr.plan[0] == "s" && pr.plan[1] == "f" && pr.con.Type.NumOut() == 1 && pr.con.Type.Out(0).Kind() == reflect.Bool {
			x.epsilonBoundary(pr, base)
		}
		return
	}
	// container receiver
	nint := 0
	var cont []int // indices of container params
	for k, p := range pr.plan {
		switch p {
		case "i":
			nint++
		case "v", "m", "cv", "cm":
			cont = append(cont, k)
		}
	}
	famOfParam := func(k int, alt bool) family {
		switch pr.plan[k] {
		case "v":
			return vectorOf[pr.con.Type.In(k+1)]
		case "m":
			return matrixOf[pr.con.Type.In(k+1)]
		case "cv":
			return family{"v", fam.Elem, fam.Sparse != alt}
		case "cm":
			return family{"m", fam.Elem, fam.Sparse != alt}
		}
		return family{}
	}
	alts := []bool{false}
	for _, p := range pr.plan {
		// interface-typed operand: also the other storage (matrices: thorough tier only)
		if p == "cv" || (p == "cm" && x.c.Thorough()) {
			alts = []bool{false, true}
		}
	}
	slotFam := func(slot int, alt bool) family {
		if slot == 0 {
			return fam
		}
		return famOfParam(cont[slot-1], alt)
	}
	for _, alt := range alts {
		// alias classes of the container slots (receiver, container operands): slots
		// of the same kind, element type and storage can be one object
		classes := make([]string, 1+len(cont))
		for i := range classes {
			classes[i] = fmt.Sprint(slotFam(i, alt))
		}
		for _, blocks := range aliasPartitions(classes) {
			blocks := blocks
			nb := blockCount(blocks)
			// one shape per block
			shapeLists := make([][]shape, nb)
			for i, b := range blocks {
				if shapeLists[b] == nil {
					shapeLists[b] = x.shapesOf(slotFam(i, alt).Kind)
				}
			}
			var recS func(b int, acc []shape)
			recS = func(b int, acc []shape) {
				if b < nb {
					for _, s := range shapeLists[b] {
						recS(b+1, append(acc, s))
					}
					return
				}
				rshape := acc[0]
				if strings.Contains(pr.con.Name, "JOINT") {
					// joint iteration is only defined over containers of equal shape
					// (the iterators themselves do not check it)
					for _, s := range acc {
						if s != rshape {
							return
						}
					}
				}
				cshapes := make([]shape, len(cont))
				for i := range cont {
					cshapes[i] = acc[blocks[i+1]]
				}
				for _, ints := range intTuples(pr.con.Name, fam, rshape.r, rshape.c, nint) {
					x.exploreShape(pr, base, alt, rshape, cshapes, cont, ints, famOfParam, blocks)
				}
			}
			recS(0, nil)
		}
	}
}

// exploreShape enumerates the contents for one shape tuple. blocks is the alias
// partition of the container slots (slot 0 = receiver, slot i+1 = cont[i]).
func (x *explorer) exploreShape(pr pairT, base Case, alt bool, rshape shape, cshapes []shape, cont []int, ints []int, famOfParam func(int, bool) family, blocks []int) {
	fam := pr.fam
	nb := blockCount(blocks)
	aliased := nb < len(blocks)
	if aliased {
		// alias vector over all slots; non-container arguments are their own objects
		al := make([]int, 1+len(pr.plan))
		next := nb
		for k := range pr.plan {
			al[k+1] = -1
		}
		for i, k := range cont {
			al[k+1] = blocks[i+1]
		}
		for k := range pr.plan {
			if al[k+1] < 0 {
				al[k+1] = next
				next++
			}
		}
		base.Alias = al
	}
	mkObj := func(f family, s shape, e []int) Obj {
		if f.Kind == "v" {
			return Obj{K: "v", T: f.Elem.Name, Sp: f.Sparse, Rows: s.r, E: e}
		}
		return Obj{K: "m", T: f.Elem.Name, Sp: f.Sparse, Rows: s.r, Cols: s.c, E: e}
	}
	cells := func(f family, s shape) int {
		if f.Kind == "v" {
			return s.r
		}
		return s.r * s.c
	}
	// argument skeleton
	args := make([]Obj, len(pr.plan))
	ii := 0
	var scalarParams []int
	for k, p := range pr.plan {
		switch p {
		case "i":
			args[k] = Obj{K: "i", I: ints[ii]}
			ii++
		case "f":
			args[k] = Obj{K: "f", F: "1e-08"}
		case "s":
			scalarParams = append(scalarParams, k)
			sp := SSpec{V: "1"}
			args[k] = Obj{K: "s", T: scalarOf[pr.con.Type.In(k+1)].Elem.Name, S: &sp}
		}
	}
	for i, k := range cont {
		f := famOfParam(k, alt)
		args[k] = mkObj(f, cshapes[i], fill(cells(f, cshapes[i]), eOne))
	}
	// shape probe with all-ones operands: a panic of the generic variant marks the
	// shape tuple as non-conforming; the pair is still compared once on it.
	probe := base
	probe.R = mkObj(fam, rshape, fill(cells(fam, rshape), eOne))
	probe.A = append([]Obj(nil), args...)
	r0, a0 := buildWorld(probe)
	if o := runVariant(pr.gen, r0, a0, false, nil); o.panicked != "" {
		x.emit(pr, probe)
		return
	}
	// full lattice
	var floats [][]string
	nf := 0
	for _, p := range pr.plan {
		if p == "f" {
			nf++
		}
	}
	if nf > 0 {
		floats = [][]string{{"1e-08"}, {"1.5"}}
	} else {
		floats = [][]string{nil}
	}
	rcols := rshape.c
	if fam.Kind == "v" {
		rcols = 1
	}
	// the content of block 0 (the receiver's): prior content when the receiver is
	// its own object, an operand value when it is also passed as an operand
	recv := func(f func([]int)) {
		if blocks[0] != 0 {
			panic("slot 0 is not block 0")
		}
		alone := true
		for _, b := range blocks[1:] {
			if b == 0 {
				alone = false
			}
		}
		if alone {
			x.recvContents(pr, rshape.r, rcols, f)
		} else {
			product(x.dataAlphabet(fam, rshape.r*rcols, 1), rshape.r*rcols, f)
		}
	}
	recv(func(re []int) {
		cs := base
		cs.R = mkObj(fam, rshape, cp(re))
		cur := append([]Obj(nil), args...)
		for i, k := range cont {
			if blocks[i+1] == 0 {
				cur[k] = cs.R
			}
		}
		var recC func(b int)
		recC = func(b int) {
			if b == nb {
				// scalar and float params
				var recP func(j int)
				recP = func(j int) {
					if j == len(scalarParams) {
						for _, fl := range floats {
							for k, p := range pr.plan {
								if p == "f" {
									cur[k] = Obj{K: "f", F: fl[0]}
								}
							}
							cs.A = append([]Obj(nil), cur...)
							x.emit(pr, cs)
						}
						return
					}
					k := scalarParams[j]
					e := scalarOf[pr.con.Type.In(k+1)].Elem
					for _, sp := range containerScalarGrid(e) {
						sp := sp
						cur[k] = Obj{K: "s", T: e.Name, S: &sp}
						recP(j + 1)
					}
					// the scalar operand IS an element of the receiver or of a container
					// operand (r.MDIVS(a, r.AT(0,0))): every position of every distinct
					// container object whose elements have the parameter's type
					pt := pr.con.Type.In(k + 1)
					for slot := 0; slot <= len(cont); slot++ {
						dup := false
						for q := 0; q < slot; q++ {
							if blocks[q] == blocks[slot] {
								dup = true
							}
						}
						if dup {
							continue
						}
						sf, n, of := fam, cells(fam, rshape), 0
						if slot > 0 {
							sf = famOfParam(cont[slot-1], alt)
							n, of = cells(sf, cshapes[slot-1]), cont[slot-1]+1
						}
						if elemTypeOf(sf) != pt {
							continue
						}
						for i := 0; i < n; i++ {
							cur[k] = Obj{K: "e", T: e.Name, Of: of, I: i}
							recP(j + 1)
						}
					}
				}
				recP(0)
				return
			}
			// first container operand of block b
			first := -1
			for i := range cont {
				if blocks[i+1] == b {
					first = i
					break
				}
			}
			f := famOfParam(cont[first], alt)
			n := cells(f, cshapes[first])
			product(x.dataAlphabet(f, n, first+1), n, func(e []int) {
				o := mkObj(f, cshapes[first], cp(e))
				for i, k := range cont {
					if blocks[i+1] == b {
						cur[k] = o
					}
				}
				recC(b + 1)
			})
		}
		recC(1)
	})
}

func run(c *vf.Ctx) {
	initTypes()
	x := &explorer{c: c, dimV: 2, dimM: 2}
	if c.Thorough() {
		x.dimV, x.dimM = 3, 3
	}
	npairs := 0
	for _, p := range protos {
		prs := findPairs(p)
		for _, pr := range prs {
			if pr.skip != "" {
				if c.Shard == 0 {
					c.Note(fmt.Sprintf("pair %v.%s/%s not checked: %s", p.typ, pr.gen.Name, pr.con.Name, pr.skip))
					c.Count("pairs_skipped", 1)
				}
				continue
			}
			npairs++
			if c.Shard == 0 {
				c.Count("pairs_"+pr.fam.Kind, 1)
			}
			c.Guard(p.typ.String()+"."+pr.con.Name, x.idx, nil)
			x.explorePair(pr)
		}
	}
	if c.Shard == 0 {
		c.Count("types_scanned", int64(len(protos)+len(constProtos)))
		for _, cp := range constProtos {
			t := reflect.TypeOf(cp)
			if n := len(findPairs(proto{family{}, t})); n > 0 {
				c.HarnessError(fmt.Sprintf("immutable type %v has %d generic/concrete method pairs that this harness does not enumerate", t, n))
			}
		}
	}
}

func main() {
	vf.Main(vf.Spec{
		ID:    "C09",
		Level: "exploration",
		Rule: "pairs (M, UPPER(M)) found by reflection on all 9 scalar, 18 vector and 18 matrix types (+14 immutable types scanned for twins); for the scalar (scalar, float64) -> bool twins (Equals) a tolerance-boundary block: wide-magnitude W x W operands with tolerances just below / at / just above the exact, the float64 and the float32 difference; per pair every tuple of the operand lattices " +
			"(scalars: boundary grid incl. +-Inf/NaN x jet order 0/1/2 x receiver prior sign/jet; containers: all shape tuples 0..D, every element pattern over {0/absent,1,-2,stored-zero,zero-with-derivative,second-order element (order 2, N=1; Real containers of <= 2 cells)}, receiver prior {absent,stored-zero,junk}); " +
			"additionally every alias configuration of {receiver, operands}: all set partitions in which one object is passed in several slots of the same concrete type (r=a, r=b, a=b, r=a=b; interface-typed operands holding the receiver's type), " +
			"built identically in both worlds, shapes per block 0..D, contents of an aliased block from the operand lattice {0/absent,1,-2,stored-zero,zero-with-derivative,second-order} (scalars: the full operand grid); " +
			"for every vector-scalar and matrix-scalar pair the scalar operand is, besides a separate object, element i of the receiver and element i of every distinct container operand (taken through At(i), so a stored entry in sparse containers), every position i, combined with every receiver/operand alias configuration; " +
			"every case in which both variants return normally and agree is CONTINUED in both worlds: each distinct object (operands, then receiver, then returned scalars/containers) is updated in place through SetFloat64/SetDerivative/SetHessian on every element with numbers distinct per object, element and derivative slot, then receiver, operands and returned objects are observed again (sparse containers incl. iterator) - a result coupled to an operand's storage in one variant only differs there; " +
			"a case is non-trivial when at least one variant returns normally (both-panic shape/domain cases are counted separately as outcomes)",
		Assume: []string{
			"the sign of a floating-point zero is not part of the observable state (values compare with ==, NaN equals NaN)",
			"AT_ is a deliberately different (non-allocating) accessor and not the twin of At",
			"operands are built twice from the same specification instead of being cloned (does not depend on Clone)",
			"aliased calls are compared generic against concrete only; whether the aliased result equals the alias-free result is property C08",
			"the temporary operand of LogAdd/LogSub (LOGADD/LOGSUB) is scratch space and always a dedicated object",
			"aliasing means passing the same object, or a scalar operand that is an element of the receiver / of a container operand; overlapping views are not enumerated here (C08, C10)",
			"a scalar operand that is a container element is compared generic against concrete only (both may differ from the call with a separate scalar: C08)",
			"the follow-up update uses the public setters, which write in place (no reallocation: N and order are unchanged); storage shared by BOTH variants alike (At/AT, Slice/SLICE, Row/ROW views) is not a difference",
		},
		Run: run,
		Replay: func(c *vf.Ctx, raw json.RawMessage) {
			initTypes()
			var cs Case
			if err := json.Unmarshal(raw, &cs); err != nil {
				c.HarnessError(err.Error())
				return
			}
			if err := checkAlias(cs); err != nil {
				c.HarnessError("replay case: " + err.Error())
				return
			}
			gen, con, _, ok := methodsOf(cs)
			if !ok {
				c.HarnessError("method pair of the replay case does not exist on this tree: " + cs.Type + "." + cs.Gen + "/" + cs.Con)
				return
			}
			if key, what, _ := runCase(gen, con, cs); key != "" {
				c.Violate(key, what, 0, cs)
			}
		},
	})
}
