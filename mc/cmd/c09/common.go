// Shared lattice / construction / observation helpers of the C08 and C09
// harnesses (the file is kept byte-identical in mc/cmd/c08 and mc/cmd/c09; the
// two binaries stay independent on purpose).
package main

import (
	"fmt"
	"math"
	"reflect"
	"strconv"
	"strings"

	ad "github.com/pbenner/autodiff"
)

/* element types ------------------------------------------------------------ */

type ElemT struct {
	Name  string
	ST    ad.ScalarType
	Real  bool
	Float bool // float storage (Real or Float)
}

// ordered simplest first
var elemTypes = []ElemT{
	{"Float64", ad.Float64Type, false, true},
	{"Real64", ad.Real64Type, true, true},
	{"Float32", ad.Float32Type, false, true},
	{"Real32", ad.Real32Type, true, true},
	{"Int", ad.IntType, false, false},
	{"Int8", ad.Int8Type, false, false},
	{"Int16", ad.Int16Type, false, false},
	{"Int32", ad.Int32Type, false, false},
	{"Int64", ad.Int64Type, false, false},
}

func elemByName(n string) ElemT {
	for _, e := range elemTypes {
		if e.Name == n {
			return e
		}
	}
	panic("unknown element type " + n)
}

/* scalar specifications ---------------------------------------------------- */

// SSpec describes a scalar state. V is a float formatted by fstr (JSON cannot
// carry Inf/NaN). K is the jet kind (Real types only, ignored otherwise):
//
//	0: order 0, N=0          1: order 1, N=2          2: order 2, N=2
//	3: order 1, N=1 (container elements)   4: order 0, N=2
//
// D selects one of three fixed exactly representable derivative patterns.
type SSpec struct {
	V string `json:"v"`
	K int    `json:"k,omitempty"`
	D int    `json:"d,omitempty"`
}

func fstr(v float64) string { return strconv.FormatFloat(v, 'g', -1, 64) }
func fval(s string) float64 {
	v, err := strconv.ParseFloat(s, 64)
	if err != nil {
		panic("bad float " + s)
	}
	return v
}

var gradPat = [3][2]float64{{1, 0}, {0.5, -2}, {-1, 3}}
var hessPat = [3][3]float64{{0, 0, 0}, {1, -0.5, 2}, {0.25, 2, -1}} // h00 h01 h11

func kindOrderN(k int) (order, n int) {
	switch k {
	case 1:
		return 1, 2
	case 2:
		return 2, 2
	case 3:
		return 1, 1
	case 4:
		return 0, 2
	}
	return 0, 0
}

// mkScalar builds a fresh scalar object of element type t in state sp.
func mkScalar(t ElemT, sp SSpec) ad.Scalar {
	s := ad.NewScalar(t.ST, fval(sp.V))
	if t.Real {
		setJet(s.(ad.MagicScalar), sp)
	}
	return s
}

func setJet(ms ad.MagicScalar, sp SSpec) {
	order, n := kindOrderN(sp.K)
	ms.Alloc(n, order)
	d := sp.D % 3
	if order >= 1 {
		for i := 0; i < n; i++ {
			ms.SetDerivative(i, gradPat[d][i])
		}
	}
	if order >= 2 {
		ms.SetHessian(0, 0, hessPat[d][0])
		ms.SetHessian(0, 1, hessPat[d][1])
		ms.SetHessian(1, 0, hessPat[d][1])
		ms.SetHessian(1, 1, hessPat[d][2])
	}
}

// assign puts state sp into an existing scalar (container element).
func assign(t ElemT, s ad.Scalar, sp SSpec) {
	if t.Real {
		ms := s.(ad.MagicScalar)
		ms.SetFloat64(fval(sp.V))
		setJet(ms, sp)
		// SetFloat64 before Alloc resets the old derivatives only; set value again
		// (setFloat64 is private; SetFloat64 after Alloc would zero the jet)
		return
	}
	s.SetFloat64(fval(sp.V))
}

/* observation -------------------------------------------------------------- */

func isNilScalar(x any) bool {
	if x == nil {
		return true
	}
	rv := reflect.ValueOf(x)
	return isNilScalarV(rv)
}

func isNilScalarV(rv reflect.Value) bool {
	switch rv.Kind() {
	case reflect.Invalid:
		return true
	case reflect.Interface, reflect.Ptr:
		if rv.IsNil() {
			return true
		}
		if rv.Kind() == reflect.Interface {
			return isNilScalarV(rv.Elem())
		}
	case reflect.Struct:
		if f := rv.FieldByName("ptr"); f.IsValid() && f.Kind() == reflect.Ptr && f.IsNil() {
			return true
		}
	}
	return false
}

type enc struct {
	sb    strings.Builder
	buf   []byte
	negz  bool // keep the sign of zero
	nullN bool // inside a sparse container: a stored null scalar (value and all derivatives zero) is the same as an absent entry
}

func isNull(s ad.ConstScalar) (null bool) {
	defer func() {
		if recover() != nil {
			null = false
		}
	}()
	if s.GetFloat64() != 0 {
		return false
	}
	o, n := s.GetOrder(), s.GetN()
	for i := 0; o >= 1 && i < n; i++ {
		if s.GetDerivative(i) != 0 {
			return false
		}
		for j := 0; o >= 2 && j < n; j++ {
			if s.GetHessian(i, j) != 0 {
				return false
			}
		}
	}
	return true
}

func isSparse(x any) bool { return strings.Contains(reflect.TypeOf(x).String(), "Sparse") }

func (e *enc) f(v float64) {
	if v == 0 && !e.negz {
		v = 0
	}
	if math.IsNaN(v) {
		e.sb.WriteString("NaN")
		return
	}
	e.buf = strconv.AppendFloat(e.buf[:0], v, 'g', -1, 64)
	e.sb.Write(e.buf)
}

// scalar writes the full public state of a scalar: value, order, N, every
// derivative slot. Panics inside the getters (inconsistent Order/N/slices) are
// part of the observation.
func (e *enc) scalar(s ad.ConstScalar) {
	if isNilScalar(s) {
		e.sb.WriteString("<nil>")
		return
	}
	defer func() {
		if r := recover(); r != nil {
			e.sb.WriteString("<corrupt:" + short(r) + ">")
		}
	}()
	if e.nullN && isNull(s) {
		e.sb.WriteString("0")
		return
	}
	switch s.(type) {
	case ad.Int, ad.Int8, ad.Int16, ad.Int32, ad.Int64, ad.ConstInt, ad.ConstInt8, ad.ConstInt16, ad.ConstInt32, ad.ConstInt64:
		e.buf = strconv.AppendInt(e.buf[:0], s.GetInt64(), 10)
		e.sb.Write(e.buf)
	default:
		e.f(s.GetFloat64())
	}
	o, n := s.GetOrder(), s.GetN()
	if o == 0 && n == 0 {
		return
	}
	e.sb.WriteString("{o")
	e.sb.WriteByte(byte('0' + o))
	e.sb.WriteString("n")
	e.sb.WriteByte(byte('0' + n))
	if o >= 1 {
		for i := 0; i < n; i++ {
			e.sb.WriteByte(' ')
			e.f(s.GetDerivative(i))
		}
	}
	if o >= 2 {
		e.sb.WriteString(" H")
		for i := 0; i < n; i++ {
			for j := 0; j < n; j++ {
				e.sb.WriteByte(' ')
				e.f(s.GetHessian(i, j))
			}
		}
	}
	e.sb.WriteString("}")
}

func short(r any) string {
	s := fmt.Sprint(r)
	if len(s) > 70 {
		s = s[:70]
	}
	return s
}

// vector writes dimension, every element (ConstAt does not create entries) and
// then the positions/values visited by ConstIterator (sparse: non-zero entries).
func (e *enc) vector(v ad.ConstVector, iter bool) {
	if v == nil || (reflect.ValueOf(v).Kind() == reflect.Ptr && reflect.ValueOf(v).IsNil()) {
		e.sb.WriteString("<nilvec>")
		return
	}
	defer func() {
		if r := recover(); r != nil {
			e.sb.WriteString("<vec-panic:" + short(r) + ">")
		}
	}()
	n := v.Dim()
	if isSparse(v) {
		e.nullN = true
		defer func() { e.nullN = false }()
	}
	e.sb.WriteString("[")
	e.sb.WriteString(strconv.Itoa(n))
	e.sb.WriteString(":")
	for i := 0; i < n; i++ {
		if i > 0 {
			e.sb.WriteByte(',')
		}
		e.scalar(v.ConstAt(i))
	}
	e.sb.WriteString("]")
	if iter {
		e.sb.WriteString("it(")
		k := 0
		for it := v.ConstIterator(); it.Ok(); it.Next() {
			if k++; k > n+2 {
				e.sb.WriteString("...nonterm")
				break
			}
			e.sb.WriteString(strconv.Itoa(it.Index()))
			e.sb.WriteByte('=')
			e.scalar(it.GetConst())
			e.sb.WriteByte(';')
		}
		e.sb.WriteString(")")
	}
}

func (e *enc) matrix(m ad.ConstMatrix, iter bool) {
	if m == nil || (reflect.ValueOf(m).Kind() == reflect.Ptr && reflect.ValueOf(m).IsNil()) {
		e.sb.WriteString("<nilmat>")
		return
	}
	defer func() {
		if r := recover(); r != nil {
			e.sb.WriteString("<mat-panic:" + short(r) + ">")
		}
	}()
	r, c := m.Dims()
	if isSparse(m) {
		e.nullN = true
		defer func() { e.nullN = false }()
	}
	e.sb.WriteString("[")
	e.sb.WriteString(strconv.Itoa(r))
	e.sb.WriteString("x")
	e.sb.WriteString(strconv.Itoa(c))
	e.sb.WriteString(":")
	for i := 0; i < r; i++ {
		for j := 0; j < c; j++ {
			if j > 0 {
				e.sb.WriteByte(',')
			}
			e.scalar(m.ConstAt(i, j))
		}
		e.sb.WriteByte(';')
	}
	e.sb.WriteString("]")
	if iter {
		e.sb.WriteString("it(")
		k := 0
		for it := m.ConstIterator(); it.Ok(); it.Next() {
			if k++; k > r*c+2 {
				e.sb.WriteString("...nonterm")
				break
			}
			i, j := it.Index()
			e.sb.WriteString(strconv.Itoa(i))
			e.sb.WriteByte('.')
			e.sb.WriteString(strconv.Itoa(j))
			e.sb.WriteByte('=')
			e.scalar(it.GetConst())
			e.sb.WriteByte(';')
		}
		e.sb.WriteString(")")
	}
}

func encElem(s ad.ConstScalar, negz, sparse bool) string {
	e := enc{negz: negz, nullN: sparse}
	e.scalar(s)
	return e.sb.String()
}
func encScalar(s ad.ConstScalar, negz bool) string {
	e := enc{negz: negz}
	e.scalar(s)
	return e.sb.String()
}
func encVector(v ad.ConstVector, negz, iter bool) string {
	e := enc{negz: negz}
	e.vector(v, iter)
	return e.sb.String()
}
func encMatrix(m ad.ConstMatrix, negz, iter bool) string {
	e := enc{negz: negz}
	e.matrix(m, iter)
	return e.sb.String()
}

/* containers --------------------------------------------------------------- */

// Element state codes of container lattices.
const (
	eZero   = 0 // dense: value 0; sparse: no entry
	eOne    = 1 // 1
	eM2     = 2 // -2
	eStored = 3 // sparse: entry created by At(i) and left 0 (dense: same as eZero)
	eDer0   = 4 // Real: value 0 with a non-zero first derivative (order 1, N=1); others: as eZero
	eJunk   = 5 // 3 ("unrelated non-zero" prior content; Real: order 1, N=1, derivative 2)
	eSeven  = 6 // 7 (distinct values for view bases start here: code c>=6 -> value c+1)
)

func elemSpec(t ElemT, code int) (SSpec, bool) {
	switch code {
	case eZero:
		return SSpec{}, false
	case eOne:
		return SSpec{V: "1"}, true
	case eM2:
		return SSpec{V: "-2"}, true
	case eStored:
		return SSpec{V: "0"}, true
	case eDer0:
		if t.Real {
			return SSpec{V: "0", K: 3, D: 0}, true
		}
		return SSpec{}, false
	case eJunk:
		if t.Real {
			return SSpec{V: "3", K: 3, D: 2}, true
		}
		return SSpec{V: "3"}, true
	}
	return SSpec{V: strconv.Itoa(code + 1)}, true
}

func newVector(t ElemT, sparse bool, n int) ad.Vector {
	if sparse {
		return ad.NullSparseVector(t.ST, n)
	}
	return ad.NullDenseVector(t.ST, n)
}

func newMatrix(t ElemT, sparse bool, r, c int) ad.Matrix {
	if sparse {
		return ad.NullSparseMatrix(t.ST, r, c)
	}
	return ad.NullDenseMatrix(t.ST, r, c)
}

func mkVector(t ElemT, sparse bool, codes []int) ad.Vector {
	v := newVector(t, sparse, len(codes))
	for i, c := range codes {
		if sp, touch := elemSpec(t, c); touch {
			assign(t, v.At(i), sp)
		}
	}
	return v
}

func mkMatrix(t ElemT, sparse bool, r, c int, codes []int) ad.Matrix {
	m := newMatrix(t, sparse, r, c)
	for i := 0; i < r; i++ {
		for j := 0; j < c; j++ {
			if sp, touch := elemSpec(t, codes[i*c+j]); touch {
				assign(t, m.At(i, j), sp)
			}
		}
	}
	return m
}

/* enumeration helpers ------------------------------------------------------ */

// product calls f with every tuple in alph^n (first position varies slowest;
// alphabets are ordered simplest first so simple tuples come first).
func product(alph []int, n int, f func([]int)) {
	cur := make([]int, n)
	var rec func(i int)
	rec = func(i int) {
		if i == n {
			f(cur)
			return
		}
		for _, a := range alph {
			cur[i] = a
			rec(i + 1)
		}
	}
	rec(0)
}

func cp(a []int) []int { return append([]int(nil), a...) }

// setPartitions enumerates all set partitions of n slots as restricted growth
// strings (block id per slot; slot 0 is always block 0), coarsest information first.
func setPartitions(n int, f func(blocks []int, nblocks int)) {
	cur := make([]int, n)
	var rec func(i, maxb int)
	rec = func(i, maxb int) {
		if i == n {
			f(cur, maxb+1)
			return
		}
		for b := 0; b <= maxb+1; b++ {
			cur[i] = b
			nm := maxb
			if b > maxb {
				nm = b
			}
			rec(i+1, nm)
		}
	}
	if n == 0 {
		f(cur, 0)
		return
	}
	cur[0] = 0
	rec(1, 0)
}

func partString(names []string, blocks []int) string {
	nb := 0
	for _, b := range blocks {
		if b+1 > nb {
			nb = b + 1
		}
	}
	var parts []string
	for b := 0; b < nb; b++ {
		var m []string
		for i, bb := range blocks {
			if bb == b {
				m = append(m, names[i])
			}
		}
		parts = append(parts, strings.Join(m, "="))
	}
	return strings.Join(parts, ",")
}

/* panic classification ----------------------------------------------------- */

// call runs f and returns the recovered panic (nil if none).
func call(f func()) (p any) {
	defer func() {
		if r := recover(); r != nil {
			p = r
		}
	}()
	f()
	return nil
}

// The explicit alias rejections of the API.
func isAliasRejection(p any) bool {
	s := fmt.Sprint(p)
	return strings.Contains(s, "result and argument must be different")
}

func panicClass(p any) string {
	if p == nil {
		return "ok"
	}
	if _, ok := p.(interface{ RuntimeError() }); ok {
		return "runtime-error"
	}
	return "panic"
}
