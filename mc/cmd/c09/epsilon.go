package main

// Fifth seeding round (seed C09-12): a comparison with a tolerance is a predicate with a
// threshold, and the two twins may compute the quantity that is compared differently (the
// concrete one subtracting in the narrow element type, the generic one after widening).
// They can then only disagree for a tolerance that lies between the two computed
// differences. The standard grids use tolerances 1e-8 and 1.5 with values of similar
// magnitude and never get there. This block enumerates, for every scalar pair with the
// signature (scalar, float64) -> bool (Equals/EQUALS), a wide-magnitude value alphabet W x W
// and for each pair (a, b) the tolerances just below, at and just above the exact difference
// |a-b| (where that is a float64; its float64 rounding otherwise) and just around the
// difference rounded to 24 bits, and around 0.

import (
	"math"
	"math/big"
)

// values that every floating-point element type holds exactly
var epsFloatW = []float64{0, 1, -1, 3, math.Ldexp(1, -25), -math.Ldexp(1, -25), math.Ldexp(1, 24), -math.Ldexp(1, 24),
	1 + math.Ldexp(1, -23), math.Ldexp(1, 100), math.MaxFloat32, -math.MaxFloat32, math.SmallestNonzeroFloat32,
	math.Inf(1), math.Inf(-1), math.NaN()}

// values that every integer element type holds exactly
var epsIntW = []float64{0, 1, -1, 5, -3, 100, -100, 127, -128}

func epsCandidates(a, b float64) []float64 {
	set := map[float64]bool{}
	add := func(d float64) {
		if math.IsNaN(d) {
			return
		}
		for _, e := range []float64{d, math.Nextafter(d, math.Inf(-1)), math.Nextafter(d, math.Inf(1))} {
			if !math.IsNaN(e) {
				set[e] = true
			}
		}
	}
	add(0)
	if !math.IsNaN(a) && !math.IsNaN(b) && !math.IsInf(a, 0) && !math.IsInf(b, 0) {
		d, _ := new(big.Float).Abs(new(big.Float).Sub(new(big.Float).SetPrec(2000).SetFloat64(a), new(big.Float).SetPrec(2000).SetFloat64(b))).Float64()
		add(d)
		add(float64(float32(d)))
		add(math.Abs(float64(float32(a) - float32(b))))
		add(math.Abs(a - b))
	} else {
		add(math.Inf(1))
	}
	out := make([]float64, 0, len(set))
	for e := range set {
		out = append(out, e)
	}
	// deterministic order
	for i := 1; i < len(out); i++ {
		for j := i; j > 0 && out[j] < out[j-1]; j-- {
			out[j], out[j-1] = out[j-1], out[j]
		}
	}
	return out
}

func (x *explorer) epsilonBoundary(pr pairT, base Case) {
	ft := scalarOf[pr.con.Type.In(1)]
	w := epsIntW
	if pr.fam.Elem.Float && ft.Elem.Float {
		w = epsFloatW
	}
	for _, a := range w {
		for _, b := range w {
			for _, e := range epsCandidates(a, b) {
				sa, sb := SSpec{V: fstr(a)}, SSpec{V: fstr(b)}
				cs := base
				cs.R = Obj{K: "s", T: pr.fam.Elem.Name, S: &sa}
				cs.A = []Obj{{K: "s", T: ft.Elem.Name, S: &sb}, {K: "f", F: fstr(e)}}
				x.c.Count("epsilon-boundary:cases", 1)
				x.emit(pr, cs)
			}
		}
	}
}
