//go:build !realpool

package main

import (
	"fmt"
	"math"

	tp "github.com/pbenner/threadpool"
)

// Deviation-bounded depth-first exploration of the controlled pool's choice sequences
// (Musuvathi/Qadeer iterative context bounding). A choice point is a pool operation at
// which more than one thread is enabled; choice 0 is the default (the running thread
// continues, otherwise the lowest enabled thread id); choosing another thread while the
// running one is still enabled costs one preemption.

const maxPts = 4096

type explorer struct {
	prefix   []int
	npts     int
	nEn      [maxPts]int8
	runEn    [maxPts]bool
	choice   [maxPts]int8
	diverged bool
	overflow bool
}

// choose is called by the controlled pool from whichever goroutine holds the baton. In the
// race build it must not be visible to the detector (the baton is not a happens-before
// edge there), hence norace and fixed-size storage.
//
//go:norace
func (e *explorer) choose(p *tp.Point) int {
	i := e.npts
	if i >= maxPts {
		e.overflow = true
		return 0
	}
	c := 0
	if i < len(e.prefix) {
		c = e.prefix[i]
		if c >= p.N {
			e.diverged = true
			c = 0
		}
	}
	e.nEn[i] = int8(p.N)
	e.runEn[i] = p.RunEn
	e.choice[i] = int8(c)
	e.npts++
	return c
}

type execResult struct {
	out      []float64
	err      string
	rep      tp.Report
	panicked string
}

// runOnce executes body under the schedule prefix (default choices afterwards).
func runOnce(e *explorer, prefix []int, body func(p tp.ThreadPool) ([]float64, error), T, buf int) (res execResult) {
	e.prefix = prefix
	e.npts = 0
	e.diverged = false
	e.overflow = false
	tp.VerifBegin(e.choose)
	func() {
		defer func() {
			if r := recover(); r != nil {
				if ab, why := tp.VerifRecoverAbort(r); ab {
					res.err = "aborted: " + why
				} else {
					res.panicked = fmt.Sprint(r)
				}
			}
		}()
		p := tp.New(T, buf)
		out, err := body(p)
		res.out = out
		if err != nil {
			res.err = err.Error()
		}
	}()
	res.rep = tp.VerifEnd()
	return
}

type schedule struct {
	Prefix []int `json:"choices"`
}

// dfs explores all schedules with at most `bound` preemptions below the subtree rooted at
// `prefix` (whose own preemption cost is already accounted by the caller through the
// recorded run). visit is called once per execution. Returns false when the execution cap
// was hit.
type dfsCtl struct {
	e      *explorer
	body   func(p tp.ThreadPool) ([]float64, error)
	T, buf int
	bound  int
	visit  func(prefix []int, r *execResult, npts, preempt int)
	cap    int64
	n      int64
	capped bool
	// sharding of first-level branches
	shard, nshard int
	branchIdx     int64
}

func (d *dfsCtl) explore(prefix []int, level int) {
	if d.cap > 0 && d.n >= d.cap {
		d.capped = true
		return
	}
	r := runOnce(d.e, prefix, d.body, d.T, d.buf)
	d.n++
	npts := d.e.npts
	// copy the recorded points (the explorer's arrays are reused by deeper runs)
	nEn := make([]int8, npts)
	runEn := make([]bool, npts)
	choice := make([]int8, npts)
	copy(nEn, d.e.nEn[:npts])
	copy(runEn, d.e.runEn[:npts])
	copy(choice, d.e.choice[:npts])
	pre := 0
	for i := 0; i < npts; i++ {
		if runEn[i] && choice[i] != 0 {
			pre++
		}
	}
	if level == 0 || d.mine(level) {
		d.visit(prefix, &r, npts, pre)
	}
	if d.e.diverged {
		// must never happen: the prefix was recorded from a real run of the same body
		r.err = "HARNESS: replay diverged"
		d.visit(prefix, &r, npts, -1)
		return
	}
	cost := 0
	for i := 0; i < npts; i++ {
		if i >= len(prefix) {
			c := cost
			if runEn[i] {
				c++
			}
			if c <= d.bound {
				for alt := 1; alt < int(nEn[i]); alt++ {
					np := make([]int, i+1)
					for k := 0; k < i; k++ {
						np[k] = int(choice[k])
					}
					np[i] = alt
					if level == 0 {
						// first-level branches are distributed over the shards
						d.branchIdx++
						if int(d.branchIdx%int64(d.nshard)) != d.shard {
							continue
						}
					}
					d.explore(np, level+1)
				}
			}
		}
		if runEn[i] && choice[i] != 0 {
			cost++
		}
	}
}

func (d *dfsCtl) mine(level int) bool { return true }

func bitsKey(v []float64) string {
	s := ""
	for _, x := range v {
		s += fmt.Sprintf("%016x.", math.Float64bits(x))
	}
	return s
}
