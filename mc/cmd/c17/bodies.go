package main

import (
	"fmt"
	"math"

	. "github.com/pbenner/autodiff"
	. "github.com/pbenner/autodiff/statistics"
	"github.com/pbenner/autodiff/statistics/generic"
	"github.com/pbenner/autodiff/statistics/matrixEstimator"
	"github.com/pbenner/autodiff/statistics/scalarDistribution"
	"github.com/pbenner/autodiff/statistics/scalarEstimator"
	"github.com/pbenner/autodiff/statistics/vectorEstimator"
	tp "github.com/pbenner/threadpool"
)

// A body builds a FRESH estimator and data set of size n, runs the pool-accepting routine
// with pool p and returns the observable outcome (estimated parameters, likelihoods
// reported to hooks) as a float vector.
type body struct {
	expectErr bool // the routine is DESIGNED to fail (error propagation through the pool is the subject)
	name      string
	nested    bool // jobs call pool operations themselves
	sizes     func(T int) []int
	run       func(n int, p tp.ThreadPool) ([]float64, error)
}

// reuseFirst: when set, every body first runs its estimation step once sequentially on the
// SAME estimator object and then with the pool under test (per-thread state sized or
// initialised by an earlier use with another pool size must not leak into the next use).
var reuseFirst bool

func twice(p tp.ThreadPool, f func(q tp.ThreadPool) error) error {
	if reuseFirst {
		if err := f(tp.ThreadPool{}); err != nil {
			return err
		}
	}
	return f(p)
}

func stdSizes(T int) []int {
	m := map[int]bool{}
	r := []int{}
	for _, n := range []int{T - 1, T, T + 1, 2*T + 1} {
		if n >= 1 && !m[n] {
			m[n] = true
			r = append(r, n)
		}
	}
	return r
}

// data on exact lattices: small integers / dyadics, so that pure sums are exact in any
// reduction order
func dataReal(n int) []float64 {
	base := []float64{-1, 0.5, 2, 0, 3, -0.5, 1, 4, -2, 1.5, 2.5}
	return base[:n]
}
func dataCount(n int) []float64 {
	base := []float64{1, 0, 2, 5, 1, 3, 0, 2, 4, 1, 2}
	return base[:n]
}
func dataCat(n int) []float64 {
	base := []float64{1, 0, 1, 2, 0, 1, 1, 2, 0, 0, 1}
	return base[:n]
}
func dataPos(n int) []float64 {
	base := []float64{1, 0.5, 2, 4, 0.25, 3, 1.5, 2, 8, 1, 0.75}
	return base[:n]
}
func logWeights(n int) ConstVector {
	base := []float64{0, math.Log(0.5), math.Log(0.25), 0, math.Log(0.5), 0, math.Log(0.25), 0, 0, math.Log(0.5), 0}
	return NewDenseFloat64Vector(base[:n])
}

func params(v ConstVector) []float64 {
	r := make([]float64, v.Dim())
	for i := range r {
		r[i] = v.Float64At(i)
	}
	return r
}

func scalarBody(name string, mk func() (ScalarEstimator, error), data func(int) []float64, weighted bool) body {
	nm := name
	if weighted {
		nm += "+weights"
	}
	return body{name: nm, sizes: stdSizes, run: func(n int, p tp.ThreadPool) ([]float64, error) {
		e, err := mk()
		if err != nil {
			return nil, err
		}
		x := NewDenseFloat64Vector(data(n))
		var g ConstVector
		if weighted {
			g = logWeights(n)
		}
		if err := twice(p, func(q tp.ThreadPool) error { return e.EstimateOnData(x, g, q) }); err != nil {
			return nil, err
		}
		d, err := e.GetEstimate()
		if err != nil {
			return nil, err
		}
		return params(d.GetParameters()), nil
	}}
}

func bodies() []body {
	var bs []body
	for _, w := range []bool{false, true} {
		bs = append(bs,
			scalarBody("scalar.Normal", func() (ScalarEstimator, error) { return scalarEstimator.NewNormalEstimator(0, 1, 1e-8) }, dataReal, w),
			scalarBody("scalar.Exponential", func() (ScalarEstimator, error) { return scalarEstimator.NewExponentialEstimator(1, 1e6) }, dataPos, w),
			scalarBody("scalar.Poisson", func() (ScalarEstimator, error) { return scalarEstimator.NewPoissonEstimator(1) }, dataCount, w),
			scalarBody("scalar.Geometric", func() (ScalarEstimator, error) { return scalarEstimator.NewGeometricEstimator(0.5) }, dataCount, w),
			scalarBody("scalar.Categorical", func() (ScalarEstimator, error) {
				return scalarEstimator.NewCategoricalEstimator([]float64{0.25, 0.5, 0.25})
			}, dataCat, w),
			scalarBody("scalar.NegativeBinomial", func() (ScalarEstimator, error) { return scalarEstimator.NewNegativeBinomialEstimator(2, 0.5) }, dataCount, w),
			scalarBody("scalar.LogTransform(Normal)", func() (ScalarEstimator, error) {
				e, err := scalarEstimator.NewNormalEstimator(0, 1, 1e-8)
				if err != nil {
					return nil, err
				}
				return scalarEstimator.NewLogTransformEstimator(e, 1)
			}, dataPos, w),
			scalarBody("scalar.Translation(Exponential)", func() (ScalarEstimator, error) {
				e, err := scalarEstimator.NewExponentialEstimator(1, 1e6)
				if err != nil {
					return nil, err
				}
				return scalarEstimator.NewTranslationEstimator(e, 1)
			}, dataPos, w),
		)
	}
	// numeric estimator (gradient accumulation over observations)
	bs = append(bs, scalarBody("scalar.Numeric(Gamma)", func() (ScalarEstimator, error) {
		d, err := scalarDistribution.NewGammaDistribution(NewReal64(2), NewReal64(1))
		if err != nil {
			return nil, err
		}
		e, err := scalarEstimator.NewNumericEstimator(d)
		if err != nil {
			return nil, err
		}
		e.MaxIterations = 3
		return e, nil
	}, dataPos, false))
	// with log-weights the objective takes its weighted branch (a further per-thread temporary)
	bs = append(bs, scalarBody("scalar.Numeric(Gamma)", func() (ScalarEstimator, error) {
		d, err := scalarDistribution.NewGammaDistribution(NewReal64(2), NewReal64(1))
		if err != nil {
			return nil, err
		}
		e, err := scalarEstimator.NewNumericEstimator(d)
		if err != nil {
			return nil, err
		}
		e.MaxIterations = 3
		return e, nil
	}, dataPos, true))

	// vector estimators over scalar ones
	bs = append(bs, body{name: "vector.ScalarIid(Normal)", nested: true, sizes: stdSizes, run: func(n int, p tp.ThreadPool) ([]float64, error) {
		e0, err := scalarEstimator.NewNormalEstimator(0, 1, 1e-8)
		if err != nil {
			return nil, err
		}
		e, err := vectorEstimator.NewScalarIid(e0, -1)
		if err != nil {
			return nil, err
		}
		xs := []ConstVector{}
		d := dataReal(11)
		for i := 0; i < n; i++ {
			xs = append(xs, NewDenseFloat64Vector([]float64{d[i], d[(i+3)%11]}))
		}
		if err := twice(p, func(q tp.ThreadPool) error { return e.EstimateOnData(xs, nil, q) }); err != nil {
			return nil, err
		}
		est, err := e.GetEstimate()
		if err != nil {
			return nil, err
		}
		return params(est.GetParameters()), nil
	}})
	bs = append(bs, body{name: "vector.ScalarId(Normal,Poisson)", nested: true, sizes: stdSizes, run: func(n int, p tp.ThreadPool) ([]float64, error) {
		e0, err := scalarEstimator.NewNormalEstimator(0, 1, 1e-8)
		if err != nil {
			return nil, err
		}
		e1, err := scalarEstimator.NewPoissonEstimator(1)
		if err != nil {
			return nil, err
		}
		e, err := vectorEstimator.NewScalarId(e0, e1)
		if err != nil {
			return nil, err
		}
		xs := []ConstVector{}
		d, c := dataReal(11), dataCount(11)
		for i := 0; i < n; i++ {
			xs = append(xs, NewDenseFloat64Vector([]float64{d[i], c[i]}))
		}
		if err := twice(p, func(q tp.ThreadPool) error { return e.EstimateOnData(xs, nil, q) }); err != nil {
			return nil, err
		}
		est, err := e.GetEstimate()
		if err != nil {
			return nil, err
		}
		return params(est.GetParameters()), nil
	}})
	bs = append(bs, body{name: "vector.Normal", sizes: func(T int) []int {
		r := []int{}
		for _, n := range stdSizes(T) {
			if n >= 3 {
				r = append(r, n)
			}
		}
		return r
	}, run: func(n int, p tp.ThreadPool) ([]float64, error) {
		e, err := vectorEstimator.NewNormalEstimator([]float64{0, 0}, []float64{1, 0, 0, 1}, 1e-8)
		if err != nil {
			return nil, err
		}
		xs := []ConstVector{}
		d := dataReal(11)
		for i := 0; i < n; i++ {
			xs = append(xs, NewDenseFloat64Vector([]float64{d[i], d[(i+4)%11] * d[i]}))
		}
		if err := twice(p, func(q tp.ThreadPool) error { return e.EstimateOnData(xs, nil, q) }); err != nil {
			return nil, err
		}
		est, err := e.GetEstimate()
		if err != nil {
			return nil, err
		}
		return params(est.GetParameters()), nil
	}})

	// EM: scalar mixtures (nested pool use: component estimation jobs call Estimate(gamma, p))
	mix := func(name string, mk func() ([]ScalarEstimator, error), data func(int) []float64, steps int) body {
		return body{name: fmt.Sprintf("scalar.Mixture[%s;steps=%d]", name, steps), nested: true,
			sizes: func(T int) []int { return []int{2, T + 1, 2*T + 1} },
			run: func(n int, p tp.ThreadPool) ([]float64, error) {
				es, err := mk()
				if err != nil {
					return nil, err
				}
				var liks []float64
				hook := generic.EmHook{Value: func(m generic.BasicMixture, i int, l, eps float64) {
					if !math.IsNaN(l) {
						liks = append(liks, l)
					}
				}}
				e, err := scalarEstimator.NewMixtureEstimator([]float64{0.5, 0.5}, es, 1e-8, steps, hook)
				if err != nil {
					return nil, err
				}
				if err := twice(p, func(q tp.ThreadPool) error { return e.EstimateOnData(NewDenseFloat64Vector(data(n)), nil, q) }); err != nil {
					return nil, err
				}
				est, err := e.GetEstimate()
				if err != nil {
					return nil, err
				}
				return append(params(est.GetParameters()), liks...), nil
			}}
	}
	for _, steps := range []int{1, 2} {
		bs = append(bs,
			mix("Normal,Normal", func() ([]ScalarEstimator, error) {
				a, err := scalarEstimator.NewNormalEstimator(-1, 1, 0.125)
				if err != nil {
					return nil, err
				}
				b, err := scalarEstimator.NewNormalEstimator(2, 1, 0.125)
				return []ScalarEstimator{a, b}, err
			}, dataReal, steps),
			mix("Poisson,Poisson", func() ([]ScalarEstimator, error) {
				a, err := scalarEstimator.NewPoissonEstimator(0.5)
				if err != nil {
					return nil, err
				}
				b, err := scalarEstimator.NewPoissonEstimator(3)
				return []ScalarEstimator{a, b}, err
			}, dataCount, steps),
		)
	}

	// Baum-Welch: vector HMM with categorical emissions over 1..3 sequences
	hmm := func(nseq, steps int) body {
		return body{name: fmt.Sprintf("vector.Hmm[Categorical;seqs=%d;steps=%d]", nseq, steps), nested: true,
			sizes: func(T int) []int { return []int{nseq} },
			run: func(n int, p tp.ThreadPool) ([]float64, error) {
				pi := NewDenseFloat64Vector([]float64{0.5, 0.5})
				tr := NewDenseFloat64Matrix([]float64{0.75, 0.25, 0.5, 0.5}, 2, 2)
				e1, err := scalarEstimator.NewCategoricalEstimator([]float64{0.25, 0.75})
				if err != nil {
					return nil, err
				}
				e2, err := scalarEstimator.NewCategoricalEstimator([]float64{0.75, 0.25})
				if err != nil {
					return nil, err
				}
				var liks []float64
				hook := generic.BaumWelchHook{Value: func(h generic.BasicHmm, i int, l, eps float64) {
					if !math.IsNaN(l) {
						liks = append(liks, l)
					}
				}}
				e, err := vectorEstimator.NewHmmEstimator(pi, tr, nil, nil, nil, []ScalarEstimator{e1, e2}, 1e-8, steps, hook)
				if err != nil {
					return nil, err
				}
				seqs := [][]float64{{1, 1, 0, 1}, {0, 0, 1}, {1, 0, 0, 0, 1}}
				xs := []ConstVector{}
				for i := 0; i < nseq; i++ {
					xs = append(xs, NewDenseFloat64Vector(seqs[i]))
				}
				if err := twice(p, func(q tp.ThreadPool) error { return e.EstimateOnData(xs, nil, q) }); err != nil {
					return nil, err
				}
				est, err := e.GetEstimate()
				if err != nil {
					return nil, err
				}
				return append(params(est.GetParameters()), liks...), nil
			}}
	}
	bs = append(bs, hmm(1, 1), hmm(2, 1), hmm(2, 2), hmm(3, 2))
	// fewer observations than threads (one sequence of length 1 or 2), emission
	// estimators that are clones of one prototype
	tiny := func(length, steps int, clones bool) body {
		return body{name: fmt.Sprintf("vector.Hmm[Categorical;1 seq of length %d;steps=%d;cloned-emissions=%v]", length, steps, clones), nested: true,
			sizes: func(T int) []int { return []int{1} },
			run: func(n int, p tp.ThreadPool) ([]float64, error) {
				pi := NewDenseFloat64Vector([]float64{0.5, 0.5})
				tr := NewDenseFloat64Matrix([]float64{0.75, 0.25, 0.5, 0.5}, 2, 2)
				e1, err := scalarEstimator.NewCategoricalEstimator([]float64{0.25, 0.75})
				if err != nil {
					return nil, err
				}
				var e2 ScalarEstimator
				if clones {
					e2 = e1.CloneScalarEstimator()
					if err := e2.SetParameters(NewDenseFloat64Vector([]float64{math.Log(0.75), math.Log(0.25)})); err != nil {
						return nil, err
					}
				} else {
					if e2, err = scalarEstimator.NewCategoricalEstimator([]float64{0.75, 0.25}); err != nil {
						return nil, err
					}
				}
				e, err := vectorEstimator.NewHmmEstimator(pi, tr, nil, nil, nil, []ScalarEstimator{e1, e2}, 1e-8, steps)
				if err != nil {
					return nil, err
				}
				xs := []ConstVector{NewDenseFloat64Vector([]float64{1, 0}[:length])}
				if err := twice(p, func(q tp.ThreadPool) error { return e.EstimateOnData(xs, nil, q) }); err != nil {
					return nil, err
				}
				est, err := e.GetEstimate()
				if err != nil {
					return nil, err
				}
				return params(est.GetParameters()), nil
			}}
	}
	bs = append(bs, tiny(1, 1, false), tiny(2, 1, false), tiny(2, 2, true))
	bs = append(bs, body{name: "vector.Hmm[3 states->2 emissions;start={0};final={2};chunk=3;steps=2]", nested: true,
		sizes: func(T int) []int { return []int{2} },
		run: func(n int, p tp.ThreadPool) ([]float64, error) {
			pi := NewDenseFloat64Vector([]float64{0.5, 0.25, 0.25})
			tr := NewDenseFloat64Matrix([]float64{0.5, 0.25, 0.25, 0.25, 0.5, 0.25, 0.25, 0.25, 0.5}, 3, 3)
			e1, err := scalarEstimator.NewCategoricalEstimator([]float64{0.25, 0.75})
			if err != nil {
				return nil, err
			}
			e2, err := scalarEstimator.NewCategoricalEstimator([]float64{0.75, 0.25})
			if err != nil {
				return nil, err
			}
			var liks []float64
			hook := generic.BaumWelchHook{Value: func(h generic.BasicHmm, i int, l, eps float64) {
				if !math.IsNaN(l) {
					liks = append(liks, l)
				}
			}}
			e, err := vectorEstimator.NewHmmEstimator(pi, tr, []int{0, 1, 0}, []int{0}, []int{2}, []ScalarEstimator{e1, e2}, 1e-8, 2, hook)
			if err != nil {
				return nil, err
			}
			e.ChunkSize = 3
			xs := []ConstVector{NewDenseFloat64Vector([]float64{1, 1, 0, 1, 0, 0}), NewDenseFloat64Vector([]float64{0, 0, 1, 1})}
			if err := twice(p, func(q tp.ThreadPool) error { return e.EstimateOnData(xs, nil, q) }); err != nil {
				return nil, err
			}
			est, err := e.GetEstimate()
			if err != nil {
				return nil, err
			}
			return append(params(est.GetParameters()), liks...), nil
		}})

	// vector mixture over ScalarId components
	bs = append(bs, body{name: "vector.Mixture[ScalarId(Normal,Normal)x2;steps=2]", nested: true,
		sizes: func(T int) []int { return []int{T + 1} },
		run: func(n int, p tp.ThreadPool) ([]float64, error) {
			mk := func(mu float64) (VectorEstimator, error) {
				e0, err := scalarEstimator.NewNormalEstimator(mu, 1, 0.125)
				if err != nil {
					return nil, err
				}
				e1, err := scalarEstimator.NewNormalEstimator(-mu, 1, 0.125)
				if err != nil {
					return nil, err
				}
				return vectorEstimator.NewScalarId(e0, e1)
			}
			a, err := mk(-1)
			if err != nil {
				return nil, err
			}
			b, err := mk(2)
			if err != nil {
				return nil, err
			}
			var liks []float64
			hook := generic.EmHook{Value: func(m generic.BasicMixture, i int, l, eps float64) {
				if !math.IsNaN(l) {
					liks = append(liks, l)
				}
			}}
			e, err := vectorEstimator.NewMixtureEstimator([]float64{0.5, 0.5}, []VectorEstimator{a, b}, 1e-8, 2, hook)
			if err != nil {
				return nil, err
			}
			xs := []ConstVector{}
			d := dataReal(11)
			for i := 0; i < n; i++ {
				xs = append(xs, NewDenseFloat64Vector([]float64{d[i], d[(i+3)%11]}))
			}
			if err := twice(p, func(q tp.ThreadPool) error { return e.EstimateOnData(xs, nil, q) }); err != nil {
				return nil, err
			}
			est, err := e.GetEstimate()
			if err != nil {
				return nil, err
			}
			return append(params(est.GetParameters()), liks...), nil
		}})

	// components obtained from ONE prototype through the public clone methods (instead of
	// being constructed separately): each must own its estimators
	for _, how := range []string{"Clone", "CloneVectorEstimator"} {
		how := how
		bs = append(bs, body{name: "vector.Mixture[ScalarIid(Normal) + its " + how + "();steps=2]", nested: true,
			sizes: func(T int) []int { return []int{T + 2} },
			run: func(n int, p tp.ThreadPool) ([]float64, error) {
				e0, err := scalarEstimator.NewNormalEstimator(-1, 1, 0.125)
				if err != nil {
					return nil, err
				}
				a, err := vectorEstimator.NewScalarIid(e0, -1)
				if err != nil {
					return nil, err
				}
				var b VectorEstimator
				if how == "Clone" {
					b = a.Clone()
				} else {
					b = a.CloneVectorEstimator()
				}
				if err := b.SetParameters(NewDenseFloat64Vector([]float64{2, 1})); err != nil {
					return nil, err
				}
				var liks []float64
				hook := generic.EmHook{Value: func(m generic.BasicMixture, i int, l, eps float64) {
					if !math.IsNaN(l) {
						liks = append(liks, l)
					}
				}}
				e, err := vectorEstimator.NewMixtureEstimator([]float64{0.5, 0.5}, []VectorEstimator{a, b}, 1e-8, 2, hook)
				if err != nil {
					return nil, err
				}
				xs := []ConstVector{}
				d := dataReal(11)
				for i := 0; i < n; i++ {
					xs = append(xs, NewDenseFloat64Vector([]float64{d[i], d[(i+3)%11]}))
				}
				if err := twice(p, func(q tp.ThreadPool) error { return e.EstimateOnData(xs, nil, q) }); err != nil {
					return nil, err
				}
				est, err := e.GetEstimate()
				if err != nil {
					return nil, err
				}
				return append(params(est.GetParameters()), liks...), nil
			}})
	}

	// matrix HMM over VectorId(ScalarId...) emissions
	bs = append(bs, body{name: "matrix.Hmm[VectorId(ScalarId(Categorical));seqs=2;steps=1]", nested: true,
		sizes: func(T int) []int { return []int{2} },
		run: func(n int, p tp.ThreadPool) ([]float64, error) {
			mk := func(th []float64) (VectorEstimator, error) {
				e0, err := scalarEstimator.NewCategoricalEstimator(th)
				if err != nil {
					return nil, err
				}
				return vectorEstimator.NewScalarId(e0)
			}
			a, err := mk([]float64{0.25, 0.75})
			if err != nil {
				return nil, err
			}
			b, err := mk([]float64{0.75, 0.25})
			if err != nil {
				return nil, err
			}
			pi := NewDenseFloat64Vector([]float64{0.5, 0.5})
			tr := NewDenseFloat64Matrix([]float64{0.75, 0.25, 0.5, 0.5}, 2, 2)
			var liks []float64
			hook := generic.BaumWelchHook{Value: func(h generic.BasicHmm, i int, l, eps float64) {
				if !math.IsNaN(l) {
					liks = append(liks, l)
				}
			}}
			e, err := matrixEstimator.NewHmmEstimator(pi, tr, nil, nil, nil, []VectorEstimator{a, b}, 1e-8, 1, hook)
			if err != nil {
				return nil, err
			}
			xs := []ConstMatrix{
				NewDenseFloat64Matrix([]float64{1, 1, 0, 1}, 4, 1),
				NewDenseFloat64Matrix([]float64{0, 0, 1}, 3, 1),
			}
			if err := twice(p, func(q tp.ThreadPool) error { return e.EstimateOnData(xs, nil, q) }); err != nil {
				return nil, err
			}
			est, err := e.GetEstimate()
			if err != nil {
				return nil, err
			}
			return append(params(est.GetParameters()), liks...), nil
		}})

	// matrix HMM whose emissions are VECTOR mixture estimators cloned from one prototype
	// (CloneVectorEstimator per state): clones must not share option slices or components
	bs = append(bs, body{name: "matrix.Hmm[vector Mixture(ScalarId(Categorical) x2) emissions cloned from one prototype;seqs=2;steps=1]", nested: true,
		sizes: func(T int) []int { return []int{2} },
		run: func(n int, p tp.ThreadPool) ([]float64, error) {
			mkc := func(th []float64) (VectorEstimator, error) {
				e0, err := scalarEstimator.NewCategoricalEstimator(th)
				if err != nil {
					return nil, err
				}
				return vectorEstimator.NewScalarId(e0)
			}
			mkmix := func(a, b []float64) (VectorEstimator, error) {
				e1, err := mkc(a)
				if err != nil {
					return nil, err
				}
				e2, err := mkc(b)
				if err != nil {
					return nil, err
				}
				return vectorEstimator.NewMixtureEstimator([]float64{0.5, 0.5}, []VectorEstimator{e1, e2}, 1e-8, 1)
			}
			m1, err := mkmix([]float64{0.25, 0.75}, []float64{0.5, 0.5})
			if err != nil {
				return nil, err
			}
			m2 := m1.CloneVectorEstimator()
			if m3, err := mkmix([]float64{0.75, 0.25}, []float64{0.5, 0.5}); err != nil {
				return nil, err
			} else if err := m2.SetParameters(m3.GetParameters()); err != nil {
				return nil, err
			}
			pi := NewDenseFloat64Vector([]float64{0.5, 0.5})
			tr := NewDenseFloat64Matrix([]float64{0.75, 0.25, 0.5, 0.5}, 2, 2)
			var liks []float64
			hook := generic.BaumWelchHook{Value: func(h generic.BasicHmm, i int, l, eps float64) {
				if !math.IsNaN(l) {
					liks = append(liks, l)
				}
			}}
			e, err := matrixEstimator.NewHmmEstimator(pi, tr, nil, nil, nil, []VectorEstimator{m1, m2}, 1e-8, 1, hook)
			if err != nil {
				return nil, err
			}
			xs := []ConstMatrix{
				NewDenseFloat64Matrix([]float64{1, 1, 0, 1}, 4, 1),
				NewDenseFloat64Matrix([]float64{0, 0, 1}, 3, 1),
			}
			if err := twice(p, func(q tp.ThreadPool) error { return e.EstimateOnData(xs, nil, q) }); err != nil {
				return nil, err
			}
			est, err := e.GetEstimate()
			if err != nil {
				return nil, err
			}
			return append(params(est.GetParameters()), liks...), nil
		}})

	// HMM whose emissions are themselves mixtures: a Baum-Welch emission job calls the
	// mixture estimator, which runs an EM step with nested pool use (depth 3)
	bs = append(bs, body{name: "vector.Hmm[Mixture(Categorical x2) emissions;seqs=2;steps=2]", nested: true,
		sizes: func(T int) []int { return []int{2} },
		run: func(n int, p tp.ThreadPool) ([]float64, error) {
			mkmix := func(a, b []float64) (ScalarEstimator, error) {
				e1, err := scalarEstimator.NewCategoricalEstimator(a)
				if err != nil {
					return nil, err
				}
				e2, err := scalarEstimator.NewCategoricalEstimator(b)
				if err != nil {
					return nil, err
				}
				return scalarEstimator.NewMixtureEstimator([]float64{0.5, 0.5}, []ScalarEstimator{e1, e2}, 1e-8, 1)
			}
			m1, err := mkmix([]float64{0.25, 0.75}, []float64{0.5, 0.5})
			if err != nil {
				return nil, err
			}
			// the second emission estimator is a CLONE of the first (the usual way to
			// build several states from one prototype); clones must not share state
			m2 := m1.CloneScalarEstimator()
			if m3, err := mkmix([]float64{0.75, 0.25}, []float64{0.5, 0.5}); err != nil {
				return nil, err
			} else if err := m2.SetParameters(m3.GetParameters()); err != nil {
				return nil, err
			}
			pi := NewDenseFloat64Vector([]float64{0.5, 0.5})
			tr := NewDenseFloat64Matrix([]float64{0.75, 0.25, 0.5, 0.5}, 2, 2)
			var liks []float64
			hook := generic.BaumWelchHook{Value: func(h generic.BasicHmm, i int, l, eps float64) {
				if !math.IsNaN(l) {
					liks = append(liks, l)
				}
			}}
			e, err := vectorEstimator.NewHmmEstimator(pi, tr, nil, nil, nil, []ScalarEstimator{m1, m2}, 1e-8, 2, hook)
			if err != nil {
				return nil, err
			}
			xs := []ConstVector{NewDenseFloat64Vector([]float64{1, 1, 0, 1}), NewDenseFloat64Vector([]float64{0, 0, 1})}
			if err := twice(p, func(q tp.ThreadPool) error { return e.EstimateOnData(xs, nil, q) }); err != nil {
				return nil, err
			}
			est, err := e.GetEstimate()
			if err != nil {
				return nil, err
			}
			return append(params(est.GetParameters()), liks...), nil
		}})

	// discrete mixture over summarised data (counts), driven through SetData + Estimate
	bs = append(bs, body{name: "scalar.DiscreteMixture[Poisson,Poisson;summarised;steps=2]", nested: true,
		sizes: func(T int) []int { return []int{2, T + 1, 2*T + 1} },
		run: func(n int, p tp.ThreadPool) ([]float64, error) {
			a, err := scalarEstimator.NewPoissonEstimator(0.5)
			if err != nil {
				return nil, err
			}
			b, err := scalarEstimator.NewPoissonEstimator(3)
			if err != nil {
				return nil, err
			}
			var liks []float64
			hook := generic.EmHook{Value: func(m generic.BasicMixture, i int, l, eps float64) {
				if !math.IsNaN(l) {
					liks = append(liks, l)
				}
			}}
			e, err := scalarEstimator.NewDiscreteMixtureEstimator([]float64{0.5, 0.5}, []ScalarEstimator{a, b}, 1e-8, 2, hook)
			if err != nil {
				return nil, err
			}
			x := NewDenseFloat64Vector(dataCount(n))
			if err := e.SetData(x, x.Dim()); err != nil {
				return nil, err
			}
			if err := twice(p, func(q tp.ThreadPool) error { return e.Estimate(nil, q) }); err != nil {
				return nil, err
			}
			est, err := e.GetEstimate()
			if err != nil {
				return nil, err
			}
			return append(params(est.GetParameters()), liks...), nil
		}})

	// matrix mixture over VectorId(ScalarId(Normal)) components
	bs = append(bs, body{name: "matrix.Mixture[VectorId(ScalarId(Normal))x2;steps=2]", nested: true,
		sizes: func(T int) []int { return []int{T + 1} },
		run: func(n int, p tp.ThreadPool) ([]float64, error) {
			mk := func(mu float64) (MatrixEstimator, error) {
				e0, err := scalarEstimator.NewNormalEstimator(mu, 1, 0.125)
				if err != nil {
					return nil, err
				}
				v0, err := vectorEstimator.NewScalarId(e0)
				if err != nil {
					return nil, err
				}
				v1, err := vectorEstimator.NewScalarId(e0)
				if err != nil {
					return nil, err
				}
				return matrixEstimator.NewVectorId(v0, v1)
			}
			a, err := mk(-1)
			if err != nil {
				return nil, err
			}
			b, err := mk(2)
			if err != nil {
				return nil, err
			}
			var liks []float64
			hook := generic.EmHook{Value: func(m generic.BasicMixture, i int, l, eps float64) {
				if !math.IsNaN(l) {
					liks = append(liks, l)
				}
			}}
			e, err := matrixEstimator.NewMixtureEstimator([]float64{0.5, 0.5}, []MatrixEstimator{a, b}, 1e-8, 2, hook)
			if err != nil {
				return nil, err
			}
			xs := []ConstMatrix{}
			d := dataReal(11)
			for i := 0; i < n; i++ {
				xs = append(xs, NewDenseFloat64Matrix([]float64{d[i], d[(i+3)%11]}, 2, 1))
			}
			if err := twice(p, func(q tp.ThreadPool) error { return e.EstimateOnData(xs, nil, q) }); err != nil {
				return nil, err
			}
			est, err := e.GetEstimate()
			if err != nil {
				return nil, err
			}
			return append(params(est.GetParameters()), liks...), nil
		}})

	// optimisation flags: with emissions (or transitions) fixed some per-thread accumulators
	// stay nil and the merge after Wait takes other branches
	for _, opt := range [][2]bool{{false, true}, {true, false}} {
		opt := opt
		bs = append(bs, body{name: fmt.Sprintf("vector.Hmm[Categorical;seqs=3;steps=2;optEmissions=%v;optTransitions=%v]", opt[0], opt[1]), nested: true,
			sizes: func(T int) []int { return []int{3} },
			run: func(n int, p tp.ThreadPool) ([]float64, error) {
				pi := NewDenseFloat64Vector([]float64{0.5, 0.5})
				tr := NewDenseFloat64Matrix([]float64{0.75, 0.25, 0.5, 0.5}, 2, 2)
				e1, err := scalarEstimator.NewCategoricalEstimator([]float64{0.25, 0.75})
				if err != nil {
					return nil, err
				}
				e2, err := scalarEstimator.NewCategoricalEstimator([]float64{0.75, 0.25})
				if err != nil {
					return nil, err
				}
				var liks []float64
				hook := generic.BaumWelchHook{Value: func(h generic.BasicHmm, i int, l, eps float64) {
					if !math.IsNaN(l) {
						liks = append(liks, l)
					}
				}}
				e, err := vectorEstimator.NewHmmEstimator(pi, tr, nil, nil, nil, []ScalarEstimator{e1, e2}, 1e-8, 2, hook)
				if err != nil {
					return nil, err
				}
				e.OptimizeEmissions, e.OptimizeTransitions = opt[0], opt[1]
				xs := []ConstVector{NewDenseFloat64Vector([]float64{1, 1, 0, 1}), NewDenseFloat64Vector([]float64{0, 0, 1}), NewDenseFloat64Vector([]float64{1, 0, 0, 0, 1})}
				if err := twice(p, func(q tp.ThreadPool) error { return e.EstimateOnData(xs, nil, q) }); err != nil {
					return nil, err
				}
				est, err := e.GetEstimate()
				if err != nil {
					return nil, err
				}
				return append(params(est.GetParameters()), liks...), nil
			}})
	}
	for _, opt := range [][2]bool{{false, true}, {true, false}} {
		opt := opt
		bs = append(bs, body{name: fmt.Sprintf("scalar.Mixture[Poisson,Poisson;steps=2;optEmissions=%v;optWeights=%v]", opt[0], opt[1]), nested: true,
			sizes: func(T int) []int { return []int{T + 1} },
			run: func(n int, p tp.ThreadPool) ([]float64, error) {
				a, err := scalarEstimator.NewPoissonEstimator(0.5)
				if err != nil {
					return nil, err
				}
				b, err := scalarEstimator.NewPoissonEstimator(3)
				if err != nil {
					return nil, err
				}
				var liks []float64
				hook := generic.EmHook{Value: func(m generic.BasicMixture, i int, l, eps float64) {
					if !math.IsNaN(l) {
						liks = append(liks, l)
					}
				}}
				e, err := scalarEstimator.NewMixtureEstimator([]float64{0.5, 0.5}, []ScalarEstimator{a, b}, 1e-8, 2, hook)
				if err != nil {
					return nil, err
				}
				e.OptimizeEmissions, e.OptimizeWeights = opt[0], opt[1]
				if err := twice(p, func(q tp.ThreadPool) error { return e.EstimateOnData(NewDenseFloat64Vector(dataCount(n)), nil, q) }); err != nil {
					return nil, err
				}
				est, err := e.GetEstimate()
				if err != nil {
					return nil, err
				}
				return append(params(est.GetParameters()), liks...), nil
			}})
	}

	// error propagation: a component estimator FAILS in the middle of EM (a Poisson
	// component collapses onto the zero counts, its rate becomes 0: "invalid parameter");
	// the error must come back for every pool size and schedule, at the same iteration
	bs = append(bs, body{name: "vector.Mixture[ScalarIid(Poisson)x2;component-fails]", nested: true, expectErr: true,
		sizes: func(T int) []int { return []int{6} },
		run: func(n int, p tp.ThreadPool) ([]float64, error) {
			p1, err := scalarEstimator.NewPoissonEstimator(1)
			if err != nil {
				return nil, err
			}
			p2, err := scalarEstimator.NewPoissonEstimator(40)
			if err != nil {
				return nil, err
			}
			e1, err := vectorEstimator.NewScalarIid(p1, -1)
			if err != nil {
				return nil, err
			}
			e2, err := vectorEstimator.NewScalarIid(p2, -1)
			if err != nil {
				return nil, err
			}
			var liks []float64
			hook := generic.EmHook{Value: func(m generic.BasicMixture, i int, l, eps float64) {
				if !math.IsNaN(l) {
					liks = append(liks, l)
				}
			}}
			e, err := vectorEstimator.NewMixtureEstimator([]float64{0.5, 0.5}, []VectorEstimator{e1, e2}, 1e-8, 6, hook)
			if err != nil {
				return nil, err
			}
			xs := []ConstVector{}
			for _, v := range []float64{0, 0, 52, 0, 47, 0}[:n] {
				xs = append(xs, NewDenseFloat64Vector([]float64{v}))
			}
			err = e.EstimateOnData(xs, nil, p)
			// after a failed estimation the parameters are unspecified (sequentially the
			// remaining component jobs are not run, in parallel they are); what must
			// agree is the error and the likelihoods reported before it
			out := append([]float64{float64(len(liks))}, liks...)
			return out, err
		}})

	// logistic regression (SAGA workers through the pool)
	bs = append(bs, body{name: "vector.LogisticRegression", nested: false,
		sizes: func(T int) []int { return []int{4} },
		run: func(n int, p tp.ThreadPool) ([]float64, error) {
			e, err := vectorEstimator.NewLogisticRegression(3, false)
			if err != nil {
				return nil, err
			}
			e.MaxIterations = 2
			e.Seed = 1
			// class label in the last component, leading 1 for the intercept
			rows := [][]float64{{1, -1, 0.5, 1}, {1, 2, 0, 0}, {1, 0.5, 3, 1}, {1, -2, 1, 0}}
			xs := []ConstVector{}
			for i := 0; i < n; i++ {
				xs = append(xs, NewDenseFloat64Vector(rows[i]))
			}
			if err := twice(p, func(q tp.ThreadPool) error { return e.EstimateOnData(xs, nil, q) }); err != nil {
				return nil, err
			}
			return params(e.GetParameters()), nil
		}})
	// batch interface (Initialize / NewObservation from pool jobs / GetEstimate): the caller
	// feeds one observation per job, the estimator accumulates per thread and merges in
	// GetEstimate; log-weights of very different size per observation, so that the
	// per-thread rescaling (exp(sum_r[k] - max)) matters
	batchW := func(n int) []float64 {
		base := []float64{0, -1, -3, -4, -3.5, -2, -6, 0, -5, -1.5, -2.5}
		return base[:n]
	}
	scalarBatch := func(name string, mk func() (ScalarBatchEstimator, error), data func(int) []float64) body {
		return body{name: "batch:" + name, sizes: stdSizes, run: func(n int, p tp.ThreadPool) ([]float64, error) {
			e, err := mk()
			if err != nil {
				return nil, err
			}
			x, w := data(n), batchW(n)
			if err := twice(p, func(q tp.ThreadPool) error {
				if err := e.Initialize(q); err != nil {
					return err
				}
				g := q.NewJobGroup()
				q.AddRangeJob(0, n, g, func(i int, q tp.ThreadPool, erf func() error) error {
					return e.NewObservation(ConstFloat64(x[i]), ConstFloat64(w[i]), q)
				})
				return q.Wait(g)
			}); err != nil {
				return nil, err
			}
			d, err := e.GetEstimate()
			if err != nil {
				return nil, err
			}
			return params(d.GetParameters()), nil
		}}
	}
	bs = append(bs,
		scalarBatch("scalar.Normal", func() (ScalarBatchEstimator, error) { return scalarEstimator.NewNormalEstimator(0, 1, 1e-8) }, dataReal),
		scalarBatch("scalar.Exponential", func() (ScalarBatchEstimator, error) { return scalarEstimator.NewExponentialEstimator(1, 1e6) }, dataPos),
		scalarBatch("scalar.Poisson", func() (ScalarBatchEstimator, error) { return scalarEstimator.NewPoissonEstimator(1) }, dataCount),
		scalarBatch("scalar.Geometric", func() (ScalarBatchEstimator, error) { return scalarEstimator.NewGeometricEstimator(0.5) }, dataCount),
		scalarBatch("scalar.Categorical", func() (ScalarBatchEstimator, error) {
			return scalarEstimator.NewCategoricalEstimator([]float64{0.25, 0.5, 0.25})
		}, dataCat),
		scalarBatch("scalar.NegativeBinomial", func() (ScalarBatchEstimator, error) { return scalarEstimator.NewNegativeBinomialEstimator(2, 0.5) }, dataCount),
	)
	bs = append(bs, body{name: "batch:vector.Normal", sizes: func(T int) []int { return []int{T + 2, 2*T + 1} },
		run: func(n int, p tp.ThreadPool) ([]float64, error) {
			e, err := vectorEstimator.NewNormalEstimator([]float64{0, 0}, []float64{1, 0, 0, 1}, 1e-8)
			if err != nil {
				return nil, err
			}
			d, w := dataReal(11), batchW(n)
			if err := twice(p, func(q tp.ThreadPool) error {
				if err := e.Initialize(q); err != nil {
					return err
				}
				g := q.NewJobGroup()
				q.AddRangeJob(0, n, g, func(i int, q tp.ThreadPool, erf func() error) error {
					return e.NewObservation(NewDenseFloat64Vector([]float64{d[i], d[(i+3)%11]}), ConstFloat64(w[i]), q)
				})
				return q.Wait(g)
			}); err != nil {
				return nil, err
			}
			est, err := e.GetEstimate()
			if err != nil {
				return nil, err
			}
			return params(est.GetParameters()), nil
		}})

	// the same on sparse data: the only configuration in which the estimator hands
	// jobs to the pool (one SAGA worker per thread on a slice of the data, averaged)
	bs = append(bs, body{name: "vector.LogisticRegression.sparse", nested: false,
		sizes: func(T int) []int { return []int{4} },
		run: func(n int, p tp.ThreadPool) ([]float64, error) {
			e, err := vectorEstimator.NewLogisticRegression(3, true)
			if err != nil {
				return nil, err
			}
			e.MaxIterations = 2
			e.Seed = 1
			rows := [][]float64{{1, -1, 0.5, 1}, {1, 2, 0, 0}, {1, 0.5, 3, 1}, {1, -2, 1, 0}}
			xs := []ConstVector{}
			for i := 0; i < n; i++ {
				xs = append(xs, AsSparseConstFloat64Vector(NewDenseFloat64Vector(rows[i])))
			}
			if err := twice(p, func(q tp.ThreadPool) error { return e.EstimateOnData(xs, nil, q) }); err != nil {
				return nil, err
			}
			return params(e.GetParameters()), nil
		}})
	return bs
}
