package main

import (
	"fmt"
	"runtime"
	"sort"
	"strings"
	"sync"
	"time"

	tp "github.com/pbenner/threadpool"
)

// Probe bodies: harness-defined job structures whose only observable is which thread id
// executed which job. They are run (a) under the controlled pool, exhaustively, giving the
// set of assignments the MODEL allows, and (b) many times on the REAL pool; every
// assignment the real pool produces must be in the model's set (real ⊆ model), which binds
// the controlled pool to the implementation it replaces in the direction the subset
// argument (model ⊆ real, by construction of the steps) does not cover.

type probe struct {
	Name   string
	T, Buf int
	Outer  int // outer jobs
	Inner  int // inner jobs added (and waited for) by each outer job; 0 = flat
}

// The model side is an UNBOUNDED (complete) enumeration, so the structures are kept small
// enough for that: nested2x1 at T=2 is ~6e4 executions, nested2x2 at T=2 ~2.5e6 (thorough).
func probes(thorough bool) []probe {
	var r []probe
	for _, T := range []int{2, 3} {
		for _, buf := range []int{1, 2, 100} {
			for _, k := range []int{1, 2, 3} {
				r = append(r, probe{fmt.Sprintf("flat%d", k), T, buf, k, 0})
			}
			if T == 2 {
				r = append(r, probe{"nested2x1", T, buf, 2, 1})
				if thorough {
					r = append(r, probe{"nested2x2", T, buf, 2, 2})
				}
			}
		}
	}
	return r
}

// runProbe executes the structure on pool p and returns the canonical assignment.
func runProbe(pr probe, p tp.ThreadPool) string { return runProbeJ(pr, p, 0) }

// jitter (real pool only): yield/sleep between pool calls to diversify real schedules
func runProbeJ(pr probe, p tp.ThreadPool, jitter int) string {
	jit := func() {
		switch jitter % 4 {
		case 1:
			runtime.Gosched()
		case 2:
			time.Sleep(20 * time.Microsecond)
		case 3:
			time.Sleep(200 * time.Microsecond)
		}
	}
	var mu sync.Mutex
	var log []string
	rec := func(s string) { mu.Lock(); log = append(log, s); mu.Unlock() }
	g := p.NewJobGroup()
	for o := 0; o < pr.Outer; o++ {
		o := o
		if jitter/8%2 == 1 {
			jit()
		}
		p.AddJob(g, func(p tp.ThreadPool, erf func() error) error {
			rec(fmt.Sprintf("o%d@%d", o, p.GetThreadId()))
			if jitter/4%2 == 1 {
				jit()
			}
			if pr.Inner > 0 {
				g2 := p.NewJobGroup()
				for i := 0; i < pr.Inner; i++ {
					i := i
					p.AddJob(g2, func(p tp.ThreadPool, erf func() error) error {
						rec(fmt.Sprintf("o%d.i%d@%d", o, i, p.GetThreadId()))
						return nil
					})
				}
				p.Wait(g2)
			}
			return nil
		})
	}
	jit()
	p.Wait(g)
	sort.Strings(log)
	return strings.Join(log, " ")
}
