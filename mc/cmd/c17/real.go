//go:build realpool

// Conformance run on the REAL github.com/pbenner/threadpool (no overlay), built with
// -race: (1) probe structures -> observed job->thread assignments, (2) the estimator
// bodies, repeated, compared with their sequential result. Prints one JSON object.
package main

import (
	"encoding/json"
	"fmt"
	"math"
	"os"
	"strconv"

	tp "github.com/pbenner/threadpool"
)

type realOut struct {
	Probes     map[string][]string `json:"probes"` // probe key -> distinct assignments observed
	Runs       int                 `json:"runs"`
	Mismatch   []string            `json:"mismatch"`
	Errors     []string            `json:"errors"`
	LostErrors int                 `json:"lost_errors_real_pool"`
}

func main() {
	// args: reps shard nshard thorough(0/1)
	reps, _ := strconv.Atoi(os.Args[1])
	shard, _ := strconv.Atoi(os.Args[2])
	nshard, _ := strconv.Atoi(os.Args[3])
	out := realOut{Probes: map[string][]string{}}
	for pi, pr := range probes(os.Args[4] == "1") {
		if pi%nshard != shard {
			continue
		}
		seen := map[string]bool{}
		for r := 0; r < reps*20; r++ {
			p := tp.New(pr.T, pr.Buf)
			seen[runProbeJ(pr, p, r)] = true
			p.Stop()
		}
		k := fmt.Sprintf("%s|T=%d|buf=%d", pr.Name, pr.T, pr.Buf)
		for a := range seen {
			out.Probes[k] = append(out.Probes[k], a)
		}
	}
	bs := bodies()
	for bi := range bs {
		b := &bs[bi]
		if bi%nshard != shard {
			continue
		}
		for _, T := range []int{2, 3, 4} {
			for _, buf := range []int{1, 100} {
				for ni, n := range b.sizes(T) {
					for _, reuse := range []bool{false, true} {
						if reuse && !(ni == 0 && buf == 100) {
							continue
						}
						reuseFirst = reuse
						ref, rerr := b.run(n, tp.New(1, buf))
						for r := 0; r < reps; r++ {
							p := tp.New(T, buf)
							got, err := b.run(n, p)
							p.Stop()
							out.Runs++
							if b.expectErr && err == nil {
								// The REAL pool (external module) records a job's error only after
								// wg.Done(), so Wait can return before the error is stored: a lost
								// job error is a window of the dependency, not of autodiff. Error
								// propagation is therefore decided on the controlled pool only.
								out.LostErrors++
								continue
							}
							if b.expectErr && err != nil && rerr != nil && err.Error() != rerr.Error() {
								out.Errors = append(out.Errors, fmt.Sprintf("%s|T=%d|buf=%d|n=%d: error %v vs sequential %v", b.name, T, buf, n, err, rerr))
								break
							}
							if (err == nil) != (rerr == nil) {
								out.Errors = append(out.Errors, fmt.Sprintf("%s|T=%d|buf=%d|n=%d: error %v vs sequential %v", b.name, T, buf, n, err, rerr))
								break
							}
							if len(got) != len(ref) {
								out.Mismatch = append(out.Mismatch, fmt.Sprintf("%s|T=%d|buf=%d|n=%d: length", b.name, T, buf, n))
								break
							}
							bad := false
							for i := range got {
								x, y := got[i], ref[i]
								if (math.IsNaN(x) && math.IsNaN(y)) || x == y || math.Abs(x-y) <= 1e-9*math.Max(1, math.Abs(y)) {
									continue
								}
								out.Mismatch = append(out.Mismatch, fmt.Sprintf("%s|T=%d|buf=%d|n=%d: component %d = %v, sequential %v", b.name, T, buf, n, i, x, y))
								bad = true
								break
							}
							if bad {
								break
							}
						}
					}
				}
			}
		}
	}
	json.NewEncoder(os.Stdout).Encode(out)
}
