//go:build !realpool

// C17: parallel estimation is schedule independent and race free.
// Deviation-bounded DFS over the controlled thread pool's scheduling choices, executed on
// the real estimators; oracle = the sequential (pool size 1) result. The same binary built
// with -race (baton invisible to the detector, real pool edges annotated) is the race pass.
package main

import (
	"bufio"
	"encoding/json"
	"fmt"
	"math"
	"os"
	"os/exec"
	"path/filepath"
	"regexp"
	"sort"
	"strings"

	tp "github.com/pbenner/threadpool"
	"verif/mc/vf"
)

type item struct {
	Body  string `json:"body"`
	T     int    `json:"threads"`
	Buf   int    `json:"bufsize"`
	N     int    `json:"n"`
	Reuse bool   `json:"estimator_reused_after_sequential_run,omitempty"`
	Bound int    `json:"preemption_bound"`
	Cap   int64  `json:"execution_cap"`
	b     *body
}

type Case struct {
	Item   item  `json:"item"`
	Prefix []int `json:"choices"`
	Race   bool  `json:"race_build,omitempty"`
}

func items(tier string, race bool) []item {
	var r []item
	bs := bodies()
	for bi := range bs {
		b := &bs[bi]
		var Ts []int
		if tier == "thorough" {
			Ts = []int{2, 3, 4}
		} else {
			Ts = []int{2, 3}
		}
		for _, T := range Ts {
			for _, buf := range []int{1, 100} {
				for _, n := range b.sizes(T) {
					it := item{Body: b.name, T: T, Buf: buf, N: n, b: b}
					switch {
					case tier == "thorough" && !race:
						it.Bound, it.Cap = 3, 60000
						if b.nested {
							it.Bound, it.Cap = 2, 30000
						}
						if T == 4 {
							it.Bound--
						}
					case tier == "thorough" && race:
						it.Bound, it.Cap = 2, 4000
						if b.nested || T == 4 {
							it.Bound = 1
						}
					case !race:
						it.Bound, it.Cap = 2, 8000
						if b.nested {
							it.Bound, it.Cap = 2, 6000
							if T > 2 {
								it.Bound, it.Cap = 1, 3000
							}
						}
					default: // quick race pass
						it.Bound, it.Cap = 1, 500
						if b.nested {
							it.Cap = 300
						}
					}
					r = append(r, it)
					// the same item with the estimator object first used sequentially
					// (only where a small exploration suffices: one data size per body)
					if n == b.sizes(T)[0] && buf == 100 {
						it2 := it
						it2.Reuse = true
						it2.Cap = it.Cap / 2
						r = append(r, it2)
					}
				}
			}
		}
	}
	return r
}

func closeEnough(a, b []float64) (bool, string) {
	if len(a) != len(b) {
		return false, fmt.Sprintf("outcome has %d components, sequential %d", len(a), len(b))
	}
	for i := range a {
		x, y := a[i], b[i]
		if math.IsNaN(x) && math.IsNaN(y) {
			continue
		}
		if x == y {
			continue
		}
		if math.Abs(x-y) <= 1e-9*math.Max(1, math.Abs(y)) {
			continue
		}
		return false, fmt.Sprintf("component %d = %v, sequential %v", i, x, y)
	}
	return true, ""
}

var reNum = regexp.MustCompile(`[0-9]+`)

func anomalyKind(s string) string {
	return strings.SplitN(s, ":", 2)[0]
}

// exploreItem runs the bounded DFS for one item; reports through c.
func exploreItem(c *vf.Ctx, it item, idx int, race bool) {
	reuseFirst = it.Reuse
	defer func() { reuseFirst = false }()
	// sequential reference: pool of size 1 (the zero pool, runs inline)
	ref, rerr := it.b.run(it.N, tp.New(1, it.Buf))
	refErr := ""
	if rerr != nil && !it.b.expectErr {
		// a body that already fails sequentially would make the comparison vacuous
		c.HarnessError(fmt.Sprintf("body %s (n=%d) fails sequentially: %v", it.Body, it.N, rerr))
		return
	}
	if it.b.expectErr {
		if rerr == nil {
			c.HarnessError(fmt.Sprintf("body %s (n=%d) is designed to fail but succeeds sequentially", it.Body, it.N))
			return
		}
		refErr = rerr.Error()
	}
	if len(ref) == 0 {
		c.HarnessError(fmt.Sprintf("body %s (n=%d) has an empty outcome", it.Body, it.N))
		return
	}
	e := &explorer{}
	outcomes := map[string]bool{}
	assigns := map[string]bool{}
	var firstOut []float64
	d := &dfsCtl{e: e, body: func(p tp.ThreadPool) ([]float64, error) { return it.b.run(it.N, p) },
		T: it.T, buf: it.Buf, bound: it.Bound, cap: it.Cap, shard: c.Shard, nshard: c.NShard}
	label := fmt.Sprintf("%s|T=%d|buf=%d", it.Body, it.T, it.Buf)
	if it.Reuse {
		label += "|reused"
	}
	d.visit = func(prefix []int, r *execResult, npts, pre int) {
		c.Eval(1)
		cs := Case{Item: it, Prefix: append([]int{}, prefix...), Race: race}
		rank := int64(len(prefix)*100 + it.T*10 + it.N)
		cls := fmt.Sprintf("%s|T=%d", it.Body, it.T)
		if it.Reuse {
			cls += "|estimator-reused-after-sequential-run"
		}
		if e.overflow {
			c.Cap("more than 4096 choice points in one execution: " + label)
		}
		if pre == -1 {
			c.HarnessError("replay diverged for " + label + fmt.Sprint(prefix))
			return
		}
		switch {
		case r.panicked != "":
			c.Violate("panic|"+cls, "panic under schedule: "+reNum.ReplaceAllString(r.panicked, "#"), rank, cs)
			c.Outcome("panic")
			return
		case r.rep.Deadlock != "":
			c.Violate("deadlock|"+cls, r.rep.Deadlock+" trace="+strings.Join(r.rep.Trace, ","), rank, cs)
			c.Outcome("deadlock")
			return
		}
		for _, a := range r.rep.Anomalies {
			c.Violate(anomalyKind(a)+"|"+cls, a+" trace="+strings.Join(r.rep.Trace, ","), rank, cs)
		}
		if r.err != refErr {
			c.Violate("error|"+cls, fmt.Sprintf("returned error %q under schedule, sequential run %q", r.err, refErr), rank, cs)
			c.Outcome("error-differs")
			return
		}
		if ok, why := closeEnough(r.out, ref); !ok {
			c.Violate("result|"+cls, "result differs from the sequential run: "+why+" assignment="+r.rep.Assignment, rank, cs)
			c.Outcome("result-differs")
		} else {
			c.Outcome("equal-to-sequential")
		}
		// independently of the sequential reference: all schedules of one item agree with the
		// default schedule (every shard runs it first), so a result that depends on the pool
		// size by construction cannot hide one that depends on the interleaving
		if firstOut == nil {
			firstOut = append([]float64{}, r.out...)
		} else if ok, why := closeEnough(r.out, firstOut); !ok {
			c.Violate("result-varies-with-schedule|"+cls, "two schedules of the same item give different results: "+why+" (second operand: default schedule) assignment="+r.rep.Assignment, rank, cs)
			c.Outcome("result-varies-with-schedule")
		}
		k := bitsKey(r.out)
		if !outcomes[k] {
			outcomes[k] = true
			c.Count("distinct_result_bit_patterns", 1)
		}
		if !assigns[r.rep.Assignment] {
			assigns[r.rep.Assignment] = true
			c.Nontrivial(1) // distinct (item, job->thread assignment incl. nesting) pairs
			c.States(1)
			c.Count("distinct_assignments", 1)
		}
		if r.rep.MaxDepth > 1 {
			c.Count("executions_with_nested_jobs", 1)
		}
		c.Count("choice_points", int64(npts))
		c.Trans(int64(len(r.rep.Trace)))
		c.Traces(1)
		if len(prefix) > 0 && c.Shard == 1 && len(assigns) == 3 {
			c.Sample(map[string]any{"item": label, "n": it.N, "choices": prefix, "assignment": r.rep.Assignment, "trace": strings.Join(r.rep.Trace, " ")})
		}
	}
	c.Guard(label, int64(idx), Case{Item: it})
	// Iterative context bounding, top down: a depth-first search that hits its execution
	// cap at bound B has not necessarily covered every schedule with fewer preemptions, so
	// this shard's part of the tree is searched again at B-1, B-2, ... until one bound is
	// completed. What is reported is the bound completed, per item and shard portion.
	for bound := it.Bound; ; bound-- {
		d.bound, d.n, d.capped, d.branchIdx = bound, 0, false, int64(idx)
		d.explore(nil, 0)
		if !d.capped {
			c.Count(fmt.Sprintf("item_shard_portions_completed_at_bound_%d", bound), 1)
			if c.Shard == 0 {
				c.Count(fmt.Sprintf("items_completed_at_bound_%d(shard 0 portion)", bound), 1)
			}
			break
		}
		c.Cap(fmt.Sprintf("execution cap %d reached at preemption bound %d for some items (bounded DFS not completed there; the next lower bound was then completed or is listed here too)", it.Cap, bound))
		c.Count(fmt.Sprintf("item_shard_portions_capped_at_bound_%d", bound), 1)
		if bound == 0 {
			c.Count("item_shard_portions_capped_at_every_bound", 1)
			break
		}
	}
}

func runControlled(c *vf.Ctx, race bool) {
	its := items(c.Tier, race)
	for i, it := range its {
		exploreItem(c, it, i, race)
	}
	if c.Shard == 0 {
		c.Count("items", int64(len(its)))
	}
}

/* race pass: the same exploration in a binary built with -race; a report ends the
 * process (halt_on_error), the parent attributes it to the item being explored. */

var reFrame = regexp.MustCompile(`(?m)^  (github\.com/pbenner/autodiff\S*)\(\)$`)

func racePass(c *vf.Ctx) {
	bin := filepath.Join(os.Getenv("VERIF_SCRATCH"), "c17race")
	if _, err := os.Stat(bin); err != nil {
		c.HarnessError("race binary missing: " + bin)
		return
	}
	its := items(c.Tier, true)
	start := 0
	for start < len(its) {
		cmd := exec.Command(bin, "-racechild", fmt.Sprintf("%d/%d/%d", c.Shard, c.NShard, start), "-tier", c.Tier)
		logp := filepath.Join(os.Getenv("VERIF_SCRATCH"), fmt.Sprintf("race-%d", c.Shard))
		cmd.Env = append(os.Environ(), "GORACE=halt_on_error=1 exitcode=66 log_path="+logp, "GOMAXPROCS=2")
		out, _ := cmd.StdoutPipe()
		var stderr strings.Builder
		cmd.Stderr = &stderr
		if err := cmd.Start(); err != nil {
			c.HarnessError("race child: " + err.Error())
			return
		}
		cur := -1
		var res vf.Result
		got := false
		sc := bufio.NewScanner(out)
		sc.Buffer(make([]byte, 1<<20), 1<<26)
		for sc.Scan() {
			line := sc.Text()
			if strings.HasPrefix(line, "ITEM ") {
				fmt.Sscanf(line, "ITEM %d", &cur)
			} else if strings.HasPrefix(line, "{") {
				if json.Unmarshal([]byte(line), &res) == nil {
					got = true
				}
			}
		}
		err := cmd.Wait()
		if got {
			mergeChild(c, &res)
			return
		}
		// the child died: data race report (exit 66) or crash
		logs, _ := filepath.Glob(logp + ".*")
		report := ""
		for _, l := range logs {
			b, _ := os.ReadFile(l)
			report += string(b)
			os.Remove(l)
		}
		if cur < 0 || cur >= len(its) {
			c.HarnessError(fmt.Sprintf("race child failed before the first item: %v %s", err, stderr.String()))
			return
		}
		it := its[cur]
		if strings.Contains(report, "DATA RACE") {
			frames := []string{}
			seen := map[string]bool{}
			for _, m := range reFrame.FindAllStringSubmatch(report, -1) {
				f := strings.TrimPrefix(m[1], "github.com/pbenner/autodiff/")
				if !seen[f] && len(frames) < 2 {
					seen[f] = true
					frames = append(frames, f)
				}
			}
			sort.Strings(frames)
			if len(report) > 3000 {
				report = report[:3000]
			}
			c.Violate("race|"+it.Body+"|"+strings.Join(frames, "+"), "data race reported under the controlled pool (real pool happens-before edges only): "+report,
				int64(cur), Case{Item: it, Race: true})
			c.Outcome("race")
		} else {
			c.HarnessError(fmt.Sprintf("race child crashed on item %d (%s): %v %s %s", cur, it.Body, err, stderr.String(), report))
			return
		}
		start = cur + 1 // continue after the racing item
	}
}

func mergeChild(c *vf.Ctx, r *vf.Result) {
	c.Eval(r.Evaluations)
	c.Count("race_pass_executions", r.Evaluations)
	c.Count("race_pass_distinct_assignments", r.Counters["distinct_assignments"])
	for _, v := range r.Violations {
		var cs any
		json.Unmarshal(v.Case, &cs)
		c.Violate(v.Key, v.What, v.Rank, cs)
	}
	for _, cp := range r.Capped {
		c.Cap("race pass: " + cp)
	}
	for _, h := range r.HarnessErr {
		c.HarnessError("race pass: " + h)
	}
}

// race child mode: explore items [start..) of this shard's view, printing ITEM lines.
func raceChild(spec string, tier string) {
	var shard, n, start int
	fmt.Sscanf(spec, "%d/%d/%d", &shard, &n, &start)
	c := vf.NewWorkerCtx(tier, shard, n)
	its := items(tier, true)
	w := bufio.NewWriter(os.Stdout)
	only := false
	for _, a := range os.Args {
		if a == "-only" {
			only = true
		}
	}
	for i := start; i < len(its) && !(only && i > start); i++ {
		fmt.Fprintf(w, "ITEM %d\n", i)
		w.Flush()
		exploreItem(c, its[i], i, true)
	}
	b, _ := json.Marshal(c.Finish())
	w.Write(b)
	w.WriteString("\n")
	w.Flush()
}

func main() {
	for i, a := range os.Args {
		if a == "-racechild" && i+1 < len(os.Args) {
			tier := "quick"
			for j, b := range os.Args {
				if b == "-tier" && j+1 < len(os.Args) {
					tier = os.Args[j+1]
				}
			}
			raceChild(os.Args[i+1], tier)
			return
		}
	}
	vf.Main(vf.Spec{
		ID:    "C17",
		Level: "model_checking",
		Rule: "items = estimator body x pool size T x channel buffer size x data size (fewer/equal/more jobs than threads); per item a preemption-bounded DFS over ALL scheduling choices of the controlled thread pool " +
			"(which thread performs its pending pool operation next: worker receive, AddJob incl. inline-on-full-buffer, Wait check/select/block incl. nested job pick-up, job Done); every execution runs the real estimator to completion; " +
			"distinct_nontrivial counts distinct (item, job->thread-id assignment with nesting depth) pairs; states/transitions are scheduler states (choice points) visited",
		Assume: []string{
			"scheduling points at pool operations suffice under data-race freedom; race freedom is checked by the race pass: same exploration in a -race build where baton hand-offs create no happens-before edges and only the real pool's edges (job send->receive, Done->Wait, go) are annotated",
			"controlled pool mirrors threadpool.go of the pinned version (FIFO buffered channel, select/default in AddJob and Wait); the real pool records a job's error just after Done, the model does both in one step",
			"the race detector can miss a race (bounded shadow history) but does not invent one",
		},
		Run: func(c *vf.Ctx) {
			runControlled(c, false)
			c.Guard("", 0, nil) // child processes below have their own pace; no hang watchdog
			racePass(c)
			conformance(c)
		},
		Replay: func(c *vf.Ctx, raw json.RawMessage) {
			var cs Case
			if err := json.Unmarshal(raw, &cs); err != nil {
				c.HarnessError(err.Error())
				return
			}
			bs := bodies()
			for i := range bs {
				if bs[i].name == cs.Item.Body {
					cs.Item.b = &bs[i]
				}
			}
			if cs.Item.b == nil {
				c.HarnessError("unknown body " + cs.Item.Body)
				return
			}
			if cs.Race {
				// re-run the whole item in the race binary
				c.Note("race findings are replayed by re-running the item's bounded exploration in the race build")
				replayRace(c, cs)
				return
			}
			it := cs.Item
			reuseFirst = it.Reuse
			it.Bound, it.Cap = 0, 1
			ref, _ := it.b.run(it.N, tp.New(1, it.Buf))
			e := &explorer{}
			r := runOnce(e, cs.Prefix, func(p tp.ThreadPool) ([]float64, error) { return it.b.run(it.N, p) }, it.T, it.Buf)
			cls := fmt.Sprintf("%s|T=%d", it.Body, it.T)
			fmt.Printf("schedule trace: %s\nassignment: %s\nresult: %v\nsequential: %v\n", strings.Join(r.rep.Trace, " "), r.rep.Assignment, r.out, ref)
			if r.panicked != "" {
				c.Violate("panic|"+cls, r.panicked, 0, cs)
			}
			if r.rep.Deadlock != "" {
				c.Violate("deadlock|"+cls, r.rep.Deadlock, 0, cs)
			}
			for _, a := range r.rep.Anomalies {
				c.Violate(anomalyKind(a)+"|"+cls, a, 0, cs)
			}
			if ok, why := closeEnough(r.out, ref); !ok && r.panicked == "" && r.rep.Deadlock == "" {
				c.Violate("result|"+cls, why, 0, cs)
			}
		},
	})
}

func replayRace(c *vf.Ctx, cs Case) {
	bin := filepath.Join(os.Getenv("VERIF_SCRATCH"), "c17race")
	its := items("quick", true)
	for i, it := range its {
		if it.Body == cs.Item.Body && it.T == cs.Item.T && it.Buf == cs.Item.Buf && it.N == cs.Item.N {
			cmd := exec.Command(bin, "-racechild", fmt.Sprintf("0/1/%d", i), "-tier", "quick", "-only")
			cmd.Env = append(os.Environ(), "GORACE=halt_on_error=1 exitcode=66")
			out, _ := cmd.CombinedOutput()
			if strings.Contains(string(out), "DATA RACE") {
				fmt.Println(string(out))
				c.Violate("race|"+it.Body, "data race reproduced", 0, cs)
			}
			return
		}
	}
}

// conformance: real pool (no overlay, -race) vs the model; probes and bodies are
// distributed over the shards by index.
func conformance(c *vf.Ctx) {
	// (a) complete (unbounded) enumeration of the probes under the controlled pool
	model := map[string]map[string]bool{}
	var nexec int64
	for pi, pr := range probes(c.Thorough()) {
		pr := pr
		if pi%c.NShard != c.Shard {
			continue
		}
		k := fmt.Sprintf("%s|T=%d|buf=%d", pr.Name, pr.T, pr.Buf)
		set := map[string]bool{}
		e := &explorer{}
		d := &dfsCtl{e: e, T: pr.T, buf: pr.Buf, bound: 1 << 20, cap: 6000000, shard: 0, nshard: 1,
			body: func(p tp.ThreadPool) ([]float64, error) { set[runProbe(pr, p)] = true; return nil, nil }}
		d.visit = func(prefix []int, r *execResult, npts, pre int) {
			nexec++
			if r.rep.Deadlock != "" || len(r.rep.Anomalies) > 0 || r.panicked != "" {
				c.HarnessError("probe " + k + " misbehaves under the controlled pool: " + r.rep.Deadlock + r.panicked + strings.Join(r.rep.Anomalies, ";"))
			}
		}
		d.explore(nil, 0)
		if d.capped {
			c.Cap("probe enumeration capped: " + k)
			continue
		}
		model[k] = set
	}
	c.Count("conformance_probe_model_executions", nexec)
	// (b) the real pool
	bin := filepath.Join(os.Getenv("VERIF_SCRATCH"), "c17real")
	reps := "15"
	if c.Thorough() {
		reps = "200"
	}
	th := "0"
	if c.Thorough() {
		th = "1"
	}
	cmd := exec.Command(bin, reps, fmt.Sprint(c.Shard), fmt.Sprint(c.NShard), th)
	logp := filepath.Join(os.Getenv("VERIF_SCRATCH"), fmt.Sprintf("realrace-%d", c.Shard))
	cmd.Env = append(os.Environ(), "GORACE=halt_on_error=0 log_path="+logp, "GOMAXPROCS=4")
	var stderr strings.Builder
	cmd.Stderr = &stderr
	outb, err := cmd.Output()
	var ro struct {
		Probes   map[string][]string `json:"probes"`
		Runs     int                 `json:"runs"`
		Mismatch []string            `json:"mismatch"`
		Errors   []string            `json:"errors"`
		Lost     int                 `json:"lost_errors_real_pool"`
	}
	if jerr := json.Unmarshal(outb, &ro); jerr != nil {
		c.HarnessError(fmt.Sprintf("real-pool conformance run failed: %v %v %s", err, jerr, stderr.String()))
		return
	}
	c.Count("conformance_real_pool_runs", int64(ro.Runs))
	c.Count("conformance_real_pool_job_errors_lost_by_the_dependency", int64(ro.Lost))
	nobs, nmodel := int64(0), int64(0)
	for k, as := range ro.Probes {
		set, ok := model[k]
		if !ok {
			continue
		}
		nmodel += int64(len(set))
		for _, a := range as {
			nobs++
			if !set[a] {
				c.HarnessError("MODEL GAP: the real pool produced an assignment the controlled pool cannot: " + k + " :: " + a)
			}
		}
	}
	c.Count("conformance_real_assignments_observed", nobs)
	c.Count("conformance_model_assignments", nmodel)
	c.Traces(nobs)
	for _, m := range ro.Mismatch {
		c.Violate("realpool-result|"+strings.SplitN(m, "|", 2)[0], "on the REAL thread pool: "+m, 0, map[string]string{"real_pool_case": m})
	}
	for _, m := range ro.Errors {
		c.Violate("realpool-error|"+strings.SplitN(m, "|", 2)[0], "on the REAL thread pool: "+m, 0, map[string]string{"real_pool_case": m})
	}
	logs, _ := filepath.Glob(logp + ".*")
	for _, l := range logs {
		b, _ := os.ReadFile(l)
		os.Remove(l)
		rep := string(b)
		for _, part := range strings.Split(rep, "==================") {
			if !strings.Contains(part, "DATA RACE") {
				continue
			}
			frames := []string{}
			seen := map[string]bool{}
			for _, m := range reFrame.FindAllStringSubmatch(part, -1) {
				f := strings.TrimPrefix(m[1], "github.com/pbenner/autodiff/")
				if !seen[f] && len(frames) < 2 {
					seen[f] = true
					frames = append(frames, f)
				}
			}
			sort.Strings(frames)
			if len(part) > 3000 {
				part = part[:3000]
			}
			c.Violate("race-realpool|"+strings.Join(frames, "+"), "data race on the real pool: "+part, 0, map[string]string{"real_pool_race": strings.Join(frames, "+")})
		}
	}
}
