package main

// Loud failure of container operations: every shape tuple from dims {0,1,2,3}, boundary
// indices, permutation arrays; dense and sparse storage; all 9 element types. Oracle: a
// plain reference model on []float64.

import (
	"fmt"
	"reflect"
	"strings"

	ad "github.com/pbenner/autodiff"

	"verif/mc/vf"
)

// LCase: one loud-failure case (replay artefact).
type LCase struct {
	Op    string `json:"op"`
	Elem  string `json:"elem"`
	Store string `json:"storage"` // one letter per container operand, receiver first: d(ense)/s(parse)
	Dims  []int  `json:"dims"`    // shape numbers of the operands in call order
	Idx   []int  `json:"indices,omitempty"`
	View  bool   `json:"receiver_and_operands_are_views,omitempty"`
}

type etype struct {
	name string
	t    ad.ScalarType
}

var etypes = []etype{
	{"Float64", ad.Float64Type}, {"Real64", ad.Real64Type}, {"Int", ad.IntType}, {"Float32", ad.Float32Type}, {"Real32", ad.Real32Type},
	{"Int8", ad.Int8Type}, {"Int16", ad.Int16Type}, {"Int32", ad.Int32Type}, {"Int64", ad.Int64Type},
}

func etypeOf(name string) ad.ScalarType {
	for _, e := range etypes {
		if e.name == name {
			return e.t
		}
	}
	panic("harness: unknown element type " + name)
}

const sentinel = 7

// ---- containers with optional sentinel frame --------------------------------------------

type vbox struct {
	v      ad.Vector
	parent ad.Vector // non-nil when v is a view
	n      int
	data   []float64
}
type mbox struct {
	m      ad.Matrix
	parent ad.Matrix
	r, c   int
	data   []float64
}

// data patterns: small integers, with zeros (so that sparse containers have absent entries)
func pattern(n, salt int, nonzero bool) []float64 {
	d := make([]float64, n)
	for i := range d {
		if nonzero {
			d[i] = float64(1 + (i+salt)%2)
		} else {
			d[i] = float64((i*2 + 1 + salt) % 3)
		}
	}
	return d
}

func mkVec(store byte, t ad.ScalarType, data []float64, view bool) *vbox {
	n := len(data)
	b := &vbox{n: n, data: data}
	alloc := func(k int) ad.Vector {
		if store == 's' {
			return ad.NullSparseVector(t, k)
		}
		return ad.NullDenseVector(t, k)
	}
	if view && store == 'd' {
		p := alloc(n + 2)
		p.At(0).SetFloat64(sentinel)
		p.At(n + 1).SetFloat64(sentinel)
		for i, x := range data {
			p.At(i + 1).SetFloat64(x)
		}
		b.parent = p
		b.v = p.Slice(1, n+1)
		return b
	}
	b.v = alloc(n)
	for i, x := range data {
		if x != 0 || store == 'd' {
			b.v.At(i).SetFloat64(x)
		}
	}
	return b
}

func mkMat(store byte, t ad.ScalarType, data []float64, r, c int, view bool) *mbox {
	b := &mbox{r: r, c: c, data: data}
	alloc := func(r, c int) ad.Matrix {
		if store == 's' {
			return ad.NullSparseMatrix(t, r, c)
		}
		return ad.NullDenseMatrix(t, r, c)
	}
	if view {
		p := alloc(r+2, c+2)
		for i := 0; i < r+2; i++ {
			for j := 0; j < c+2; j++ {
				if i == 0 || j == 0 || i == r+1 || j == c+1 {
					p.At(i, j).SetFloat64(sentinel)
				} else if x := data[(i-1)*c+j-1]; x != 0 || store == 'd' {
					p.At(i, j).SetFloat64(x)
				}
			}
		}
		b.parent = p
		b.m = p.Slice(1, r+1, 1, c+1)
		return b
	}
	b.m = alloc(r, c)
	for i := 0; i < r; i++ {
		for j := 0; j < c; j++ {
			if x := data[i*c+j]; x != 0 || store == 'd' {
				b.m.At(i, j).SetFloat64(x)
			}
		}
	}
	return b
}

// try runs fn and reports a recovered panic.
func try(fn func()) (pan any) {
	defer func() {
		if r := recover(); r != nil {
			pan = r
		}
	}()
	fn()
	return nil
}

func readVec(v ad.ConstVector) (out []float64, pan any) {
	pan = try(func() {
		n := v.Dim()
		out = make([]float64, n)
		for i := 0; i < n; i++ {
			out[i] = v.ConstAt(i).GetFloat64()
		}
	})
	return
}

func readMat(m ad.ConstMatrix) (out []float64, r, c int, pan any) {
	pan = try(func() {
		r, c = m.Dims()
		out = make([]float64, r*c)
		for i := 0; i < r; i++ {
			for j := 0; j < c; j++ {
				out[i*c+j] = m.ConstAt(i, j).GetFloat64()
			}
		}
	})
	return
}

// frameIntact: the sentinel frame of a view's parent is unchanged.
func (b *vbox) frameIntact() bool {
	if b.parent == nil {
		return true
	}
	ok := true
	if p := try(func() {
		ok = b.parent.Dim() == b.n+2 && b.parent.ConstAt(0).GetFloat64() == sentinel && b.parent.ConstAt(b.n+1).GetFloat64() == sentinel
	}); p != nil {
		return false
	}
	return ok
}
func (b *mbox) frameIntact() bool {
	if b.parent == nil {
		return true
	}
	ok := true
	if p := try(func() {
		r, c := b.parent.Dims()
		if r != b.r+2 || c != b.c+2 {
			ok = false
			return
		}
		for i := 0; i < r; i++ {
			for j := 0; j < c; j++ {
				if (i == 0 || j == 0 || i == r-1 || j == c-1) && b.parent.ConstAt(i, j).GetFloat64() != sentinel {
					ok = false
				}
			}
		}
	}); p != nil {
		return false
	}
	return ok
}

// healthy: shape unchanged, every in-range read succeeds, iterators stay in range.
func (b *vbox) healthy() string {
	vals, pan := readVec(b.v)
	if pan != nil {
		return fmt.Sprintf("in-range read panics afterwards: %v", pan)
	}
	if len(vals) != b.n {
		return fmt.Sprintf("Dim() changed from %d to %d", b.n, len(vals))
	}
	bad := ""
	if p := try(func() {
		k := 0
		for it := b.v.ConstIterator(); it.Ok(); it.Next() {
			if i := it.Index(); i < 0 || i >= b.n {
				bad = fmt.Sprintf("iterator visits index %d of a vector of dimension %d", i, b.n)
				return
			}
			if k++; k > b.n+4 {
				bad = "iterator does not end"
				return
			}
		}
	}); p != nil {
		return fmt.Sprintf("iteration panics afterwards: %v", p)
	}
	return bad
}
func (b *mbox) healthy() string {
	vals, r, c, pan := readMat(b.m)
	if pan != nil {
		return fmt.Sprintf("in-range read panics afterwards: %v", pan)
	}
	if r != b.r || c != b.c || len(vals) != b.r*b.c {
		return fmt.Sprintf("Dims() changed from %dx%d to %dx%d", b.r, b.c, r, c)
	}
	return ""
}

func same(a, b []float64) bool {
	if len(a) != len(b) {
		return false
	}
	for i := range a {
		if a[i] != b[i] {
			return false
		}
	}
	return true
}

// ---- verdict ------------------------------------------------------------------------------

type lres struct {
	what   string // "" = holds
	msg    string
	nonc   bool   // the case was non-conforming
	loud   string // "panic"/"error"/"" how a non-conforming call failed
	empty  bool   // the (silent) result of a non-conforming call holds no element
	benign string // accepted deviation (statistics only)
}

func storeName(s string) string {
	return strings.NewReplacer("d", "dense,", "s", "sparse,").Replace(s)
}

// judge is the common oracle. conform: the model accepts the call. loud: the call panicked or
// returned an error. got/want: observed and model result (conforming only; nil = not compared).
func judge(conform bool, pan any, err error, got, want []float64, shapeOK bool, health string, frames bool) lres {
	loud := pan != nil || err != nil
	switch {
	case !frames:
		return lres{what: "outside-view-window-modified", msg: "a value outside the view's window (sentinel frame in the parent) was modified or the parent changed shape", nonc: !conform}
	case health != "":
		return lres{what: "receiver-corrupted", msg: health, nonc: !conform}
	case conform && loud:
		return lres{what: "conforming-call-rejected", msg: fmt.Sprintf("conforming call failed: panic=%v err=%v", pan, err)}
	case conform && !shapeOK:
		return lres{what: "wrong-shape-result", msg: "result of a conforming call has the wrong shape"}
	case conform && want != nil && !same(got, want):
		return lres{what: "wrong-value", msg: fmt.Sprintf("conforming call returned %v, model %v", got, want)}
	case !conform && !loud:
		return lres{what: "no-panic-no-error", msg: fmt.Sprintf("non-conforming call returned silently (result %v)", got), nonc: true, empty: got != nil && len(got) == 0}
	}
	r := lres{nonc: !conform}
	if pan != nil {
		r.loud = "panic"
	} else if err != nil {
		r.loud = "error"
	}
	return r
}

// ---- the operations ---------------------------------------------------------------------------

var vecBinary = map[string]func(a, b float64) float64{
	"VaddV": func(a, b float64) float64 { return a + b },
	"VsubV": func(a, b float64) float64 { return a - b },
	"VmulV": func(a, b float64) float64 { return a * b },
	"VdivV": func(a, b float64) float64 { return a / b },
}
var vecScalar = map[string]func(a, b float64) float64{
	"VaddS": vecBinary["VaddV"], "VsubS": vecBinary["VsubV"], "VmulS": vecBinary["VmulV"], "VdivS": vecBinary["VdivV"],
}
var matBinary = map[string]func(a, b float64) float64{
	"MaddM": vecBinary["VaddV"], "MsubM": vecBinary["VsubV"], "MmulM": vecBinary["VmulV"], "MdivM": vecBinary["VdivV"],
}
var matScalar = map[string]func(a, b float64) float64{
	"MaddS": vecBinary["VaddV"], "MsubS": vecBinary["VsubV"], "MmulS": vecBinary["VmulV"], "MdivS": vecBinary["VdivV"],
}

func callMethod(recv any, name string, args ...any) (out []reflect.Value) {
	m := reflect.ValueOf(recv).MethodByName(name)
	if !m.IsValid() {
		panic("harness: no method " + name)
	}
	in := make([]reflect.Value, len(args))
	for i, a := range args {
		in[i] = reflect.ValueOf(a)
	}
	return m.Call(in)
}

// evalLoud executes one case and returns the verdict.
func evalLoud(cs *LCase) lres {
	t := etypeOf(cs.Elem)
	d := cs.Dims
	st := cs.Store
	isDiv := strings.Contains(cs.Op, "div")
	// for division the receiver data for int types must stay exact: a in {0,2,4}, b in {1,2}
	dataA := func(n int) []float64 {
		p := pattern(n, 0, false)
		if isDiv {
			for i := range p {
				p[i] *= 2
			}
		}
		return p
	}
	dataB := func(n int) []float64 { return pattern(n, 1, isDiv) }
	dataR := func(n int) []float64 { return pattern(n, 2, false) }
	var pan any
	var err error
	switch {
	// ------------------------------------------------------------ r.VopV(a, b)
	case vecBinary[cs.Op] != nil:
		r, a, b := mkVec(st[0], t, dataR(d[0]), cs.View), mkVec(st[1], t, dataA(d[1]), cs.View), mkVec(st[2], t, dataB(d[2]), cs.View)
		conform := d[0] == d[1] && d[1] == d[2]
		pan = try(func() { callMethod(r.v, cs.Op, a.v, b.v) })
		var want []float64
		if conform {
			want = make([]float64, d[0])
			for i := range want {
				want[i] = vecBinary[cs.Op](a.data[i], b.data[i])
			}
		}
		got, _ := readVec(r.v)
		return judge(conform, pan, nil, got, want, len(got) == d[0], r.healthy(), r.frameIntact() && a.frameIntact() && b.frameIntact())
	// ------------------------------------------------------------ r.VopS(a, s)
	case vecScalar[cs.Op] != nil:
		r, a := mkVec(st[0], t, dataR(d[0]), cs.View), mkVec(st[1], t, dataA(d[1]), cs.View)
		s := ad.NewScalar(t, 2)
		conform := d[0] == d[1]
		pan = try(func() { callMethod(r.v, cs.Op, a.v, s) })
		var want []float64
		if conform {
			want = make([]float64, d[0])
			for i := range want {
				want[i] = vecScalar[cs.Op](a.data[i], 2)
			}
		}
		got, _ := readVec(r.v)
		return judge(conform, pan, nil, got, want, len(got) == d[0], r.healthy(), r.frameIntact() && a.frameIntact())
	// ------------------------------------------------------------ r.MdotV(A, b) / r.VdotM(a, B)
	case cs.Op == "MdotV" || cs.Op == "VdotM":
		// dims: r, (n, m), b
		r := mkVec(st[0], t, dataR(d[0]), cs.View)
		A := mkMat(st[1], t, dataA(d[1]*d[2]), d[1], d[2], cs.View)
		b := mkVec(st[2], t, dataB(d[3]), cs.View)
		var conform bool
		var want []float64
		if cs.Op == "MdotV" {
			conform = d[0] == d[1] && d[3] == d[2]
			if conform {
				want = make([]float64, d[0])
				for i := 0; i < d[1]; i++ {
					for j := 0; j < d[2]; j++ {
						want[i] += A.data[i*d[2]+j] * b.data[j]
					}
				}
			}
			pan = try(func() { r.v.MdotV(A.m, b.v) })
		} else {
			conform = d[0] == d[2] && d[3] == d[1]
			if conform {
				want = make([]float64, d[0])
				for i := 0; i < d[1]; i++ {
					for j := 0; j < d[2]; j++ {
						want[j] += b.data[i] * A.data[i*d[2]+j]
					}
				}
			}
			pan = try(func() { r.v.VdotM(b.v, A.m) })
		}
		got, _ := readVec(r.v)
		return judge(conform, pan, nil, got, want, len(got) == d[0], r.healthy(), r.frameIntact() && A.frameIntact() && b.frameIntact())
	// ------------------------------------------------------------ s.VdotV(a, b)
	case cs.Op == "VdotV":
		a, b := mkVec(st[0], t, dataA(d[0]), cs.View), mkVec(st[1], t, dataB(d[1]), cs.View)
		s := ad.NewScalar(t, 5)
		conform := d[0] == d[1]
		pan = try(func() { s.VdotV(a.v, b.v) })
		var want []float64
		if conform {
			w := 0.0
			for i := range a.data {
				w += a.data[i] * b.data[i]
			}
			want = []float64{w}
		}
		return judge(conform, pan, nil, []float64{s.GetFloat64()}, want, true, a.healthy(), a.frameIntact() && b.frameIntact())
	// ------------------------------------------------------------ r.Set(a) (vector)
	case cs.Op == "V.Set":
		r, a := mkVec(st[0], t, dataR(d[0]), cs.View), mkVec(st[1], t, dataA(d[1]), cs.View)
		conform := d[0] == d[1]
		pan = try(func() { r.v.Set(a.v) })
		var want []float64
		if conform {
			want = a.data
		}
		got, _ := readVec(r.v)
		return judge(conform, pan, nil, got, want, len(got) == d[0], r.healthy(), r.frameIntact() && a.frameIntact())
	// ------------------------------------------------------------ element access (vector)
	case cs.Op == "V.At" || cs.Op == "V.ConstAt" || cs.Op == "V.Float64At":
		r := mkVec(st[0], t, dataR(d[0]), cs.View)
		i := cs.Idx[0]
		conform := i >= 0 && i < d[0]
		var got []float64
		pan = try(func() {
			switch cs.Op {
			case "V.At":
				got = []float64{r.v.At(i).GetFloat64()}
			case "V.ConstAt":
				got = []float64{r.v.ConstAt(i).GetFloat64()}
			default:
				got = []float64{r.v.Float64At(i)}
			}
		})
		var want []float64
		if conform {
			want = []float64{r.data[i]}
		}
		return judge(conform, pan, nil, got, want, true, r.healthy(), r.frameIntact())
	// ------------------------------------------------------------ r.Slice(i, j) / ConstSlice
	case cs.Op == "V.Slice" || cs.Op == "V.ConstSlice":
		r := mkVec(st[0], t, dataR(d[0]), cs.View)
		i, j := cs.Idx[0], cs.Idx[1]
		conform := 0 <= i && i <= j && j <= d[0]
		var got []float64
		pan = try(func() {
			var s ad.ConstVector
			if cs.Op == "V.Slice" {
				s = r.v.Slice(i, j)
			} else {
				s = r.v.ConstSlice(i, j)
			}
			// a slice that cannot be read is as good as a failure at the call
			g, p := readVec(s)
			if p != nil {
				panic(p)
			}
			got = g
		})
		var want []float64
		if conform {
			want = append([]float64{}, r.data[i:j]...)
		}
		return judge(conform, pan, nil, got, want, !conform || len(got) == j-i, r.healthy(), r.frameIntact())
	// ------------------------------------------------------------ r.Swap(i, j)
	case cs.Op == "V.Swap":
		r := mkVec(st[0], t, dataR(d[0]), cs.View)
		i, j := cs.Idx[0], cs.Idx[1]
		conform := 0 <= i && i < d[0] && 0 <= j && j < d[0]
		pan = try(func() { r.v.Swap(i, j) })
		var want []float64
		if conform {
			want = append([]float64{}, r.data...)
			want[i], want[j] = want[j], want[i]
		}
		got, _ := readVec(r.v)
		return judge(conform, pan, nil, got, want, len(got) == d[0], r.healthy(), r.frameIntact())
	// ------------------------------------------------------------ r.Permute(pi)
	case cs.Op == "V.Permute":
		r := mkVec(st[0], t, dataR(d[0]), cs.View)
		pi := cs.Idx
		conform := len(pi) == d[0]
		for _, p := range pi {
			if p < 0 || p >= d[0] {
				conform = false
			}
		}
		pan = try(func() { err = r.v.Permute(append([]int{}, pi...)) })
		got, _ := readVec(r.v)
		// an in-range array is a valid interchange sequence: only the multiset of values is fixed
		okShape := len(got) == d[0]
		if conform && pan == nil && err == nil && okShape {
			cnt := map[float64]int{}
			for _, x := range r.data {
				cnt[x]++
			}
			for _, x := range got {
				cnt[x]--
			}
			for _, k := range cnt {
				if k != 0 {
					return lres{what: "wrong-value", msg: fmt.Sprintf("Permute(%v) changed the multiset of elements: %v -> %v", pi, r.data, got)}
				}
			}
		}
		return judge(conform, pan, err, got, nil, okShape, r.healthy(), r.frameIntact())
	// ------------------------------------------------------------ r.AsMatrix(n, m)
	case cs.Op == "V.AsMatrix":
		r := mkVec(st[0], t, dataR(d[0]), cs.View)
		n, m := cs.Idx[0], cs.Idx[1]
		conform := n >= 0 && m >= 0 && n*m == d[0]
		var got []float64
		shapeOK := true
		pan = try(func() {
			x := r.v.AsMatrix(n, m)
			g, rr, cc, p := readMat(x)
			if p != nil {
				panic(p)
			}
			got, shapeOK = g, rr == n && cc == m
		})
		var want []float64
		if conform {
			want = r.data
		}
		return judge(conform, pan, nil, got, want, shapeOK, r.healthy(), r.frameIntact())
	// ------------------------------------------------------------ r.MopM(a, b)
	case matBinary[cs.Op] != nil:
		r := mkMat(st[0], t, dataR(d[0]*d[1]), d[0], d[1], cs.View)
		a := mkMat(st[1], t, dataA(d[2]*d[3]), d[2], d[3], cs.View)
		b := mkMat(st[2], t, dataB(d[4]*d[5]), d[4], d[5], cs.View)
		conform := d[0] == d[2] && d[2] == d[4] && d[1] == d[3] && d[3] == d[5]
		pan = try(func() { callMethod(r.m, cs.Op, a.m, b.m) })
		var want []float64
		if conform {
			want = make([]float64, len(a.data))
			for i := range want {
				want[i] = matBinary[cs.Op](a.data[i], b.data[i])
			}
		}
		got, rr, cc, _ := readMat(r.m)
		return judge(conform, pan, nil, got, want, rr == d[0] && cc == d[1], r.healthy(), r.frameIntact() && a.frameIntact() && b.frameIntact())
	// ------------------------------------------------------------ r.MopS(a, s)
	case matScalar[cs.Op] != nil:
		r := mkMat(st[0], t, dataR(d[0]*d[1]), d[0], d[1], cs.View)
		a := mkMat(st[1], t, dataA(d[2]*d[3]), d[2], d[3], cs.View)
		s := ad.NewScalar(t, 2)
		conform := d[0] == d[2] && d[1] == d[3]
		pan = try(func() { callMethod(r.m, cs.Op, a.m, s) })
		var want []float64
		if conform {
			want = make([]float64, len(a.data))
			for i := range want {
				want[i] = matScalar[cs.Op](a.data[i], 2)
			}
		}
		got, rr, cc, _ := readMat(r.m)
		return judge(conform, pan, nil, got, want, rr == d[0] && cc == d[1], r.healthy(), r.frameIntact() && a.frameIntact())
	// ------------------------------------------------------------ r.MdotM(a, b)
	case cs.Op == "MdotM":
		r := mkMat(st[0], t, dataR(d[0]*d[1]), d[0], d[1], cs.View)
		a := mkMat(st[1], t, dataA(d[2]*d[3]), d[2], d[3], cs.View)
		b := mkMat(st[2], t, dataB(d[4]*d[5]), d[4], d[5], cs.View)
		conform := d[0] == d[2] && d[3] == d[4] && d[1] == d[5]
		pan = try(func() { r.m.MdotM(a.m, b.m) })
		var want []float64
		if conform {
			want = make([]float64, d[0]*d[1])
			for i := 0; i < d[2]; i++ {
				for j := 0; j < d[5]; j++ {
					for k := 0; k < d[3]; k++ {
						want[i*d[1]+j] += a.data[i*d[3]+k] * b.data[k*d[5]+j]
					}
				}
			}
		}
		got, rr, cc, _ := readMat(r.m)
		return judge(conform, pan, nil, got, want, rr == d[0] && cc == d[1], r.healthy(), r.frameIntact() && a.frameIntact() && b.frameIntact())
	// ------------------------------------------------------------ r.Outer(a, b)
	case cs.Op == "Outer":
		r := mkMat(st[0], t, dataR(d[0]*d[1]), d[0], d[1], cs.View)
		a, b := mkVec(st[1], t, dataA(d[2]), cs.View), mkVec(st[2], t, dataB(d[3]), cs.View)
		conform := d[0] == d[2] && d[1] == d[3]
		pan = try(func() { r.m.Outer(a.v, b.v) })
		var want []float64
		if conform {
			want = make([]float64, d[0]*d[1])
			for i := 0; i < d[0]; i++ {
				for j := 0; j < d[1]; j++ {
					want[i*d[1]+j] = a.data[i] * b.data[j]
				}
			}
		}
		got, rr, cc, _ := readMat(r.m)
		return judge(conform, pan, nil, got, want, rr == d[0] && cc == d[1], r.healthy(), r.frameIntact() && a.frameIntact() && b.frameIntact())
	// ------------------------------------------------------------ r.Set(a) (matrix)
	case cs.Op == "M.Set":
		r := mkMat(st[0], t, dataR(d[0]*d[1]), d[0], d[1], cs.View)
		a := mkMat(st[1], t, dataA(d[2]*d[3]), d[2], d[3], cs.View)
		conform := d[0] == d[2] && d[1] == d[3]
		pan = try(func() { r.m.Set(a.m) })
		var want []float64
		if conform {
			want = a.data
		}
		got, rr, cc, _ := readMat(r.m)
		return judge(conform, pan, nil, got, want, rr == d[0] && cc == d[1], r.healthy(), r.frameIntact() && a.frameIntact())
	// ------------------------------------------------------------ element access (matrix)
	case cs.Op == "M.At" || cs.Op == "M.ConstAt":
		r := mkMat(st[0], t, dataR(d[0]*d[1]), d[0], d[1], cs.View)
		i, j := cs.Idx[0], cs.Idx[1]
		conform := 0 <= i && i < d[0] && 0 <= j && j < d[1]
		var got []float64
		pan = try(func() {
			if cs.Op == "M.At" {
				got = []float64{r.m.At(i, j).GetFloat64()}
			} else {
				got = []float64{r.m.ConstAt(i, j).GetFloat64()}
			}
		})
		var want []float64
		if conform {
			want = []float64{r.data[i*d[1]+j]}
		}
		return judge(conform, pan, nil, got, want, true, r.healthy(), r.frameIntact())
	// ------------------------------------------------------------ Row / Col / Diag / AsVector / T
	case cs.Op == "M.Row" || cs.Op == "M.Col":
		r := mkMat(st[0], t, dataR(d[0]*d[1]), d[0], d[1], cs.View)
		i := cs.Idx[0]
		var conform bool
		var want, got []float64
		if cs.Op == "M.Row" {
			conform = 0 <= i && i < d[0]
			if conform {
				want = append([]float64{}, r.data[i*d[1]:(i+1)*d[1]]...)
			}
		} else {
			conform = 0 <= i && i < d[1]
			if conform {
				want = make([]float64, d[0])
				for k := range want {
					want[k] = r.data[k*d[1]+i]
				}
			}
		}
		pan = try(func() {
			var v ad.Vector
			if cs.Op == "M.Row" {
				v = r.m.Row(i)
			} else {
				v = r.m.Col(i)
			}
			g, p := readVec(v)
			if p != nil {
				panic(p)
			}
			got = g
		})
		return judge(conform, pan, nil, got, want, !conform || len(got) == len(want), r.healthy(), r.frameIntact())
	case cs.Op == "M.Diag":
		r := mkMat(st[0], t, dataR(d[0]*d[1]), d[0], d[1], cs.View)
		conform := d[0] == d[1]
		var want, got []float64
		if conform {
			want = make([]float64, d[0])
			for k := range want {
				want[k] = r.data[k*d[1]+k]
			}
		}
		pan = try(func() {
			g, p := readVec(r.m.Diag())
			if p != nil {
				panic(p)
			}
			got = g
		})
		return judge(conform, pan, nil, got, want, !conform || len(got) == len(want), r.healthy(), r.frameIntact())
	case cs.Op == "M.AsVector":
		r := mkMat(st[0], t, dataR(d[0]*d[1]), d[0], d[1], cs.View)
		var got []float64
		pan = try(func() {
			g, p := readVec(r.m.AsVector())
			if p != nil {
				panic(p)
			}
			got = g
		})
		// the order is unspecified: compare as multisets, and the length
		ok := len(got) == d[0]*d[1]
		if ok {
			cnt := map[float64]int{}
			for _, x := range r.data {
				cnt[x]++
			}
			for _, x := range got {
				cnt[x]--
			}
			for _, k := range cnt {
				if k != 0 {
					ok = false
				}
			}
		}
		if pan == nil && !ok {
			return lres{what: "wrong-value", msg: fmt.Sprintf("AsVector of a %dx%d matrix with elements %v gives %v", d[0], d[1], r.data, got)}
		}
		return judge(true, pan, nil, nil, nil, true, r.healthy(), r.frameIntact())
	case cs.Op == "M.T":
		r := mkMat(st[0], t, dataR(d[0]*d[1]), d[0], d[1], cs.View)
		var got []float64
		shapeOK := true
		pan = try(func() {
			g, rr, cc, p := readMat(r.m.T())
			if p != nil {
				panic(p)
			}
			got, shapeOK = g, rr == d[1] && cc == d[0]
		})
		want := make([]float64, d[0]*d[1])
		for i := 0; i < d[0]; i++ {
			for j := 0; j < d[1]; j++ {
				want[j*d[0]+i] = r.data[i*d[1]+j]
			}
		}
		return judge(true, pan, nil, got, want, shapeOK, r.healthy(), r.frameIntact())
	// ------------------------------------------------------------ r.Slice(rf, rt, cf, ct)
	case cs.Op == "M.Slice" || cs.Op == "M.ConstSlice":
		r := mkMat(st[0], t, dataR(d[0]*d[1]), d[0], d[1], cs.View)
		rf, rt, cf, ct := cs.Idx[0], cs.Idx[1], cs.Idx[2], cs.Idx[3]
		conform := 0 <= rf && rf <= rt && rt <= d[0] && 0 <= cf && cf <= ct && ct <= d[1]
		var got []float64
		shapeOK := true
		pan = try(func() {
			var s ad.ConstMatrix
			if cs.Op == "M.Slice" {
				s = r.m.Slice(rf, rt, cf, ct)
			} else {
				s = r.m.ConstSlice(rf, rt, cf, ct)
			}
			g, rr, cc, p := readMat(s)
			if p != nil {
				panic(p)
			}
			got, shapeOK = g, rr == rt-rf && cc == ct-cf
			if rr < 0 || cc < 0 {
				got = []float64{float64(rr), float64(cc)} // a matrix with a negative dimension was returned
			}
		})
		var want []float64
		if conform {
			want = []float64{}
			for i := rf; i < rt; i++ {
				want = append(want, r.data[i*d[1]+cf:i*d[1]+ct]...)
			}
		}
		return judge(conform, pan, nil, got, want, !conform || shapeOK, r.healthy(), r.frameIntact())
	// ------------------------------------------------------------ r.Swap(i1,j1,i2,j2)
	case cs.Op == "M.Swap":
		r := mkMat(st[0], t, dataR(d[0]*d[1]), d[0], d[1], cs.View)
		i1, j1, i2, j2 := cs.Idx[0], cs.Idx[1], cs.Idx[2], cs.Idx[3]
		in := func(i, j int) bool { return 0 <= i && i < d[0] && 0 <= j && j < d[1] }
		conform := in(i1, j1) && in(i2, j2)
		pan = try(func() { r.m.Swap(i1, j1, i2, j2) })
		var want []float64
		if conform {
			want = append([]float64{}, r.data...)
			want[i1*d[1]+j1], want[i2*d[1]+j2] = want[i2*d[1]+j2], want[i1*d[1]+j1]
		}
		got, rr, cc, _ := readMat(r.m)
		return judge(conform, pan, nil, got, want, rr == d[0] && cc == d[1], r.healthy(), r.frameIntact())
	// ------------------------------------------------------------ SwapRows / SwapColumns
	case cs.Op == "M.SwapRows" || cs.Op == "M.SwapColumns":
		r := mkMat(st[0], t, dataR(d[0]*d[1]), d[0], d[1], cs.View)
		i, j := cs.Idx[0], cs.Idx[1]
		lim := d[0]
		if cs.Op == "M.SwapColumns" {
			lim = d[1]
		}
		inRange := 0 <= i && i < lim && 0 <= j && j < lim
		square := d[0] == d[1]
		pan = try(func() {
			if cs.Op == "M.SwapRows" {
				err = r.m.SwapRows(i, j)
			} else {
				err = r.m.SwapColumns(i, j)
			}
		})
		got, rr, cc, _ := readMat(r.m)
		if inRange && !square {
			// the library documents these operations for square matrices only: an error is
			// accepted, a correct swap as well
			if pan == nil && err != nil {
				return judge(false, pan, err, got, nil, true, r.healthy(), r.frameIntact())
			}
		}
		var want []float64
		if inRange {
			want = append([]float64{}, r.data...)
			if cs.Op == "M.SwapRows" {
				for k := 0; k < d[1]; k++ {
					want[i*d[1]+k], want[j*d[1]+k] = want[j*d[1]+k], want[i*d[1]+k]
				}
			} else {
				for k := 0; k < d[0]; k++ {
					want[k*d[1]+i], want[k*d[1]+j] = want[k*d[1]+j], want[k*d[1]+i]
				}
			}
		}
		return judge(inRange, pan, err, got, want, rr == d[0] && cc == d[1], r.healthy(), r.frameIntact())
	// ------------------------------------------------------------ PermuteRows / PermuteColumns / SymmetricPermutation
	case cs.Op == "M.PermuteRows" || cs.Op == "M.PermuteColumns" || cs.Op == "M.SymmetricPermutation":
		r := mkMat(st[0], t, dataR(d[0]*d[1]), d[0], d[1], cs.View)
		pi := cs.Idx
		lim := d[0]
		if cs.Op == "M.PermuteColumns" {
			lim = d[1]
		}
		conform := len(pi) == lim && d[0] == d[1]
		for _, p := range pi {
			if p < 0 || p >= lim {
				conform = false
			}
		}
		pan = try(func() {
			switch cs.Op {
			case "M.PermuteRows":
				err = r.m.PermuteRows(append([]int{}, pi...))
			case "M.PermuteColumns":
				err = r.m.PermuteColumns(append([]int{}, pi...))
			default:
				err = r.m.SymmetricPermutation(append([]int{}, pi...))
			}
		})
		got, rr, cc, _ := readMat(r.m)
		if d[0] != d[1] && pan == nil && err == nil {
			// non-square: refusing is the documented behaviour, but so is nothing else
			return judge(false, pan, err, got, nil, true, r.healthy(), r.frameIntact())
		}
		if conform && pan == nil && err == nil {
			cnt := map[float64]int{}
			for _, x := range r.data {
				cnt[x]++
			}
			for _, x := range got {
				cnt[x]--
			}
			for _, k := range cnt {
				if k != 0 {
					return lres{what: "wrong-value", msg: fmt.Sprintf("%s(%v) changed the multiset of elements", cs.Op, pi)}
				}
			}
		}
		return judge(conform, pan, err, got, nil, rr == d[0] && cc == d[1], r.healthy(), r.frameIntact())
	// ------------------------------------------------------------ derivative orders
	case cs.Op == "Variables(vector)" || cs.Op == "Variables(matrix)" || cs.Op == "SetVariable" || cs.Op == "Variables(scalars)":
		order := cs.Idx[0]
		conform := order >= 0 && order <= 2
		n := d[0]
		if n == 0 && cs.Op != "SetVariable" {
			// nothing is declared a variable: accepting and rejecting are both fine
			return lres{benign: "no-variable-to-declare"}
		}
		var probe ad.MagicScalar
		pan = try(func() {
			switch cs.Op {
			case "Variables(vector)":
				var v ad.MagicVector
				if cs.Elem == "Real32" {
					v = ad.NullDenseReal32Vector(n)
				} else {
					v = ad.NullDenseReal64Vector(n)
				}
				err = v.Variables(order)
				if n > 0 {
					probe = v.MagicAt(n - 1)
				}
			case "Variables(matrix)":
				var m ad.MagicMatrix
				if cs.Elem == "Real32" {
					m = ad.NullDenseReal32Matrix(n, n)
				} else {
					m = ad.NullDenseReal64Matrix(n, n)
				}
				err = m.Variables(order)
				if n > 0 {
					probe = m.MagicAt(n-1, n-1)
				}
			case "Variables(scalars)":
				xs := make([]ad.MagicScalar, n)
				for i := range xs {
					if cs.Elem == "Real32" {
						xs[i] = ad.NewReal32(1)
					} else {
						xs[i] = ad.NewReal64(1)
					}
				}
				err = ad.Variables(order, xs...)
				if n > 0 {
					probe = xs[n-1]
				}
			default: // SetVariable(i, n, order), i = Idx[1]
				var x ad.MagicScalar
				if cs.Elem == "Real32" {
					x = ad.NewReal32(1)
				} else {
					x = ad.NewReal64(1)
				}
				err = x.SetVariable(cs.Idx[1], n, order)
				probe = x
			}
		})
		if cs.Op == "SetVariable" {
			i := cs.Idx[1]
			if order >= 1 && (i < 0 || i >= n) {
				conform = false
			}
			if order == 0 && (i < 0 || i >= n) {
				// no derivative is stored for order 0: accepting or rejecting are both fine
				if pan != nil || err != nil {
					conform = false
				}
			}
		}
		// a variable that was accepted must be usable: squaring it must not panic
		health := ""
		if pan == nil && err == nil && probe != nil {
			if p := try(func() {
				y := probe.CloneMagicScalar()
				y.Mul(probe, probe)
				_ = y.GetFloat64()
				for k := 0; k < y.GetN(); k++ {
					_ = y.GetDerivative(k)
				}
			}); p != nil {
				health = fmt.Sprintf("accepted variable is unusable: x*x panics: %v", p)
			}
		}
		return judge(conform, pan, err, nil, nil, true, health, true)
	// ------------------------------------------------------------ dyadic ops on different N
	case cs.Op == "dyadic-different-N":
		// Idx: [orderA, orderB, opIndex]; Dims: [nA, nB]
		ops := []string{"Add", "Sub", "Mul", "Div", "Pow"}
		name := ops[cs.Idx[2]]
		mkv := func(n, order int, val float64) ad.MagicScalar {
			var x ad.MagicScalar
			if cs.Elem == "Real32" {
				x = ad.NewReal32(float32(val))
			} else {
				x = ad.NewReal64(val)
			}
			if order > 0 {
				if e := x.SetVariable(0, n, order); e != nil {
					panic("harness: " + e.Error())
				}
			}
			return x
		}
		a, b := mkv(d[0], cs.Idx[0], 2), mkv(d[1], cs.Idx[1], 3)
		conform := !(cs.Idx[0] >= 1 && cs.Idx[1] >= 1 && d[0] != d[1])
		var r ad.MagicScalar
		if cs.Elem == "Real32" {
			r = ad.NewReal32(0)
		} else {
			r = ad.NewReal64(0)
		}
		pan = try(func() { callMethod(r, name, a, b) })
		var want, got []float64
		if conform {
			w := map[string]float64{"Add": 5, "Sub": -1, "Mul": 6, "Div": 2.0 / 3.0, "Pow": 8}[name]
			if cs.Elem == "Real32" {
				w = float64(float32(w))
			}
			if name != "Div" {
				want, got = []float64{w}, []float64{r.GetFloat64()}
			}
		}
		return judge(conform, pan, nil, got, want, true, "", true)
	}
	panic("harness: unknown op " + cs.Op)
}

// ---- enumeration ------------------------------------------------------------------------------

var dimsAll = []int{0, 1, 2, 3}

func tuples(k int, f func([]int)) {
	t := make([]int, k)
	var rec func(i int)
	rec = func(i int) {
		if i == k {
			f(append([]int{}, t...))
			return
		}
		for _, d := range dimsAll {
			t[i] = d
			rec(i + 1)
		}
	}
	rec(0)
}

func stores(k int) []string {
	out := []string{""}
	for i := 0; i < k; i++ {
		var nx []string
		for _, s := range out {
			nx = append(nx, s+"d", s+"s")
		}
		out = nx
	}
	return out
}

func boundary(d int) []int {
	m := map[int]bool{}
	var r []int
	for _, i := range []int{-1, 0, d - 1, d, d + 1} {
		if !m[i] {
			m[i] = true
			r = append(r, i)
		}
	}
	return r
}

// permArrays: all arrays of length d over {-1..d}, plus the identity of length d-1 and d+1.
func permArrays(d int) [][]int {
	var out [][]int
	vals := []int{}
	for v := 0; v < d; v++ {
		vals = append(vals, v)
	}
	vals = append(vals, -1, d)
	a := make([]int, d)
	var rec func(i int)
	rec = func(i int) {
		if i == d {
			out = append(out, append([]int{}, a...))
			return
		}
		for _, v := range vals {
			a[i] = v
			rec(i + 1)
		}
	}
	rec(0)
	for _, l := range []int{d - 1, d + 1} {
		if l >= 0 {
			id := make([]int, l)
			for i := range id {
				id[i] = i % max(d, 1)
			}
			out = append(out, id)
		}
	}
	return out
}

func degenerate(cs *LCase) bool {
	for _, d := range cs.Dims {
		if d == 0 {
			return true
		}
	}
	return false
}

// loudKey: op | receiver storage | operand storage class | plain/views | regular/0-dim |
// conforming or not | what. The element type is "any" when another element type fails alike.
func loudKey(cs *LCase, r lres, elem string) string {
	shape := "conforming"
	if r.nonc {
		shape = "nonconforming"
	}
	if len(cs.Idx) > 0 {
		shape += "-index"
	} else {
		shape += "-shape"
	}
	recv := "-"
	if len(cs.Store) > 0 {
		recv = map[byte]string{'d': "dense", 's': "sparse"}[cs.Store[0]]
	}
	v := "plain"
	if cs.View {
		v = "views"
	}
	return fmt.Sprintf("LOUD|%s|recv=%s|%s|elem=%s|%s|%s", cs.Op, recv, v, elem, shape, r.what)
}

func evalSafe(cs *LCase) (r lres, harness string) {
	if p := try(func() { r = evalLoud(cs) }); p != nil {
		if s, ok := p.(string); ok && strings.HasPrefix(s, "harness:") {
			return r, s
		}
		// a panic outside the protected call: the read-back of an operand failed
		r = lres{what: "unreadable-after-call", msg: fmt.Sprintf("reading the operands after the call panics: %v", p)}
	}
	// accepted behaviour on degenerate shapes: a loud failure of a formally conforming call on
	// an empty container, and a silent empty result of a formally non-conforming call
	if r.what == "conforming-call-rejected" && degenerate(cs) {
		r = lres{benign: "loud-on-empty-container"}
	}
	if r.what == "no-panic-no-error" && r.empty {
		r = lres{nonc: true, benign: "silent-but-empty-result"}
	}
	return r, ""
}

func runLoud(c *vf.Ctx, cs *LCase, rank int64) {
	r, h := evalSafe(cs)
	if h != "" {
		c.HarnessError(h)
		return
	}
	c.Eval(1)
	if sampleN++; sampleN == 777 || sampleN == 77777 {
		c.Sample(Envelope{Kind: "loud", L: cs})
	}
	if r.nonc || len(cs.Dims) > 0 && cs.Dims[0] > 0 {
		c.Nontrivial(1)
	}
	if r.what == "" {
		lab := "conforming-ok"
		if r.benign != "" {
			lab = "accepted:" + r.benign
		} else if r.nonc {
			lab = "rejected-by-" + r.loud
		}
		c.Outcome("loud|" + cs.Op + "|" + lab)
		return
	}
	c.Outcome("loud|" + cs.Op + "|" + r.what)
	// element type in the key
	elem := cs.Elem
	if len(cs.Store) > 0 {
		o := *cs
		o.Elem = "Float64"
		if cs.Elem == "Float64" {
			o.Elem = "Int32"
		}
		if r2, _ := evalSafe(&o); r2.what == r.what {
			elem = "any"
		}
	}
	c.Violate(loudKey(cs, r, elem), fmt.Sprintf("%s store=%s elem=%s dims=%v idx=%v view=%v: %s", cs.Op, cs.Store, cs.Elem, cs.Dims, cs.Idx, cs.View, r.msg), rank, Envelope{Kind: "loud", L: cs})
}

func rankOf(cs *LCase) int64 {
	var s int64
	for _, d := range cs.Dims {
		s += int64(d)
	}
	for _, d := range cs.Idx {
		if d < 0 {
			s += 2
		} else {
			s += int64(d)
		}
	}
	s *= 100
	s += int64(strings.Count(cs.Store, "s")) * 10
	if cs.View {
		s += 5
	}
	for i, e := range etypes {
		if e.name == cs.Elem {
			s += int64(i)
		}
	}
	return s
}

func loudAll(c *vf.Ctx, idx *int64) {
	expired := false
	emit := func(cs LCase) {
		*idx++
		if !c.Mine(*idx) || expired {
			return
		}
		if c.Expired() {
			expired = true
			c.Cap("soft deadline reached in the container loud-failure enumeration")
			return
		}
		k := cs
		c.Guard("loud|"+cs.Op, rankOf(&k), Envelope{Kind: "loud", L: &k})
		runLoud(c, &k, rankOf(&k))
	}
	views := []bool{false, true}
	for _, e := range etypes {
		en := e.name
		// vector ops
		for _, v := range views {
			for _, op := range []string{"VaddV", "VsubV", "VmulV", "VdivV"} {
				for _, st := range stores(3) {
					tuples(3, func(d []int) { emit(LCase{Op: op, Elem: en, Store: st, Dims: d, View: v}) })
				}
			}
			for _, op := range []string{"VaddS", "VsubS", "VmulS", "VdivS"} {
				for _, st := range stores(2) {
					tuples(2, func(d []int) { emit(LCase{Op: op, Elem: en, Store: st, Dims: d, View: v}) })
				}
			}
			for _, op := range []string{"MdotV", "VdotM"} {
				for _, st := range stores(3) {
					tuples(4, func(d []int) { emit(LCase{Op: op, Elem: en, Store: st, Dims: d, View: v}) })
				}
			}
			for _, st := range stores(2) {
				tuples(2, func(d []int) {
					emit(LCase{Op: "VdotV", Elem: en, Store: st, Dims: d, View: v})
					emit(LCase{Op: "V.Set", Elem: en, Store: st, Dims: d, View: v})
				})
			}
			for _, st := range stores(1) {
				for _, d := range dimsAll {
					for _, i := range boundary(d) {
						for _, op := range []string{"V.At", "V.ConstAt", "V.Float64At"} {
							emit(LCase{Op: op, Elem: en, Store: st, Dims: []int{d}, Idx: []int{i}, View: v})
						}
						for _, j := range boundary(d) {
							emit(LCase{Op: "V.Slice", Elem: en, Store: st, Dims: []int{d}, Idx: []int{i, j}, View: v})
							emit(LCase{Op: "V.ConstSlice", Elem: en, Store: st, Dims: []int{d}, Idx: []int{i, j}, View: v})
							emit(LCase{Op: "V.Swap", Elem: en, Store: st, Dims: []int{d}, Idx: []int{i, j}, View: v})
						}
					}
					for _, pi := range permArrays(d) {
						emit(LCase{Op: "V.Permute", Elem: en, Store: st, Dims: []int{d}, Idx: pi, View: v})
					}
					for n := -1; n <= 4; n++ {
						for m := -1; m <= 4; m++ {
							emit(LCase{Op: "V.AsMatrix", Elem: en, Store: st, Dims: []int{d}, Idx: []int{n, m}, View: v})
						}
					}
				}
			}
			// matrix ops
			for _, op := range []string{"MaddM", "MsubM", "MmulM", "MdivM"} {
				for _, st := range []string{"ddd", "sss", "dsd", "sds"} {
					tuples(6, func(d []int) { emit(LCase{Op: op, Elem: en, Store: st, Dims: d, View: v}) })
				}
			}
			for _, op := range []string{"MaddS", "MsubS", "MmulS", "MdivS"} {
				for _, st := range stores(2) {
					tuples(4, func(d []int) { emit(LCase{Op: op, Elem: en, Store: st, Dims: d, View: v}) })
				}
			}
			for _, st := range []string{"ddd", "sss", "dsd", "sds", "dds"} {
				tuples(6, func(d []int) { emit(LCase{Op: "MdotM", Elem: en, Store: st, Dims: d, View: v}) })
			}
			for _, st := range stores(3) {
				tuples(4, func(d []int) { emit(LCase{Op: "Outer", Elem: en, Store: st, Dims: d, View: v}) })
			}
			for _, st := range stores(2) {
				tuples(4, func(d []int) { emit(LCase{Op: "M.Set", Elem: en, Store: st, Dims: d, View: v}) })
			}
			for _, st := range stores(1) {
				tuples(2, func(d []int) {
					for _, op := range []string{"M.Diag", "M.AsVector", "M.T"} {
						emit(LCase{Op: op, Elem: en, Store: st, Dims: d, View: v})
					}
					for _, i := range boundary(d[0]) {
						emit(LCase{Op: "M.Row", Elem: en, Store: st, Dims: d, Idx: []int{i}, View: v})
						for _, j := range boundary(d[1]) {
							emit(LCase{Op: "M.At", Elem: en, Store: st, Dims: d, Idx: []int{i, j}, View: v})
							emit(LCase{Op: "M.ConstAt", Elem: en, Store: st, Dims: d, Idx: []int{i, j}, View: v})
						}
						for _, j := range boundary(d[0]) {
							emit(LCase{Op: "M.SwapRows", Elem: en, Store: st, Dims: d, Idx: []int{i, j}, View: v})
						}
					}
					for _, i := range boundary(d[1]) {
						emit(LCase{Op: "M.Col", Elem: en, Store: st, Dims: d, Idx: []int{i}, View: v})
						for _, j := range boundary(d[1]) {
							emit(LCase{Op: "M.SwapColumns", Elem: en, Store: st, Dims: d, Idx: []int{i, j}, View: v})
						}
					}
					// Slice: row bounds × column bounds
					for _, rf := range boundary(d[0]) {
						for _, rt := range boundary(d[0]) {
							for _, cf := range boundary(d[1]) {
								for _, ct := range boundary(d[1]) {
									emit(LCase{Op: "M.Slice", Elem: en, Store: st, Dims: d, Idx: []int{rf, rt, cf, ct}, View: v})
									if rf == 0 && cf == 0 || rt == d[0] && ct == d[1] {
										emit(LCase{Op: "M.ConstSlice", Elem: en, Store: st, Dims: d, Idx: []int{rf, rt, cf, ct}, View: v})
									}
								}
							}
						}
					}
					// Swap: one fixed in-range/out-of-range partner each
					for _, i := range boundary(d[0]) {
						for _, j := range boundary(d[1]) {
							emit(LCase{Op: "M.Swap", Elem: en, Store: st, Dims: d, Idx: []int{i, j, 0, 0}, View: v})
							emit(LCase{Op: "M.Swap", Elem: en, Store: st, Dims: d, Idx: []int{0, 0, i, j}, View: v})
						}
					}
					for _, pi := range permArrays(d[0]) {
						emit(LCase{Op: "M.PermuteRows", Elem: en, Store: st, Dims: d, Idx: pi, View: v})
						emit(LCase{Op: "M.SymmetricPermutation", Elem: en, Store: st, Dims: d, Idx: pi, View: v})
					}
					for _, pi := range permArrays(d[1]) {
						emit(LCase{Op: "M.PermuteColumns", Elem: en, Store: st, Dims: d, Idx: pi, View: v})
					}
				})
			}
		}
		// derivative orders and dyadic rules (Real types only)
		if en == "Real64" || en == "Real32" {
			for order := -1; order <= 4; order++ {
				for _, n := range dimsAll {
					emit(LCase{Op: "Variables(vector)", Elem: en, Dims: []int{n}, Idx: []int{order}})
					emit(LCase{Op: "Variables(matrix)", Elem: en, Dims: []int{n}, Idx: []int{order}})
					emit(LCase{Op: "Variables(scalars)", Elem: en, Dims: []int{n}, Idx: []int{order}})
					for _, i := range boundary(n) {
						emit(LCase{Op: "SetVariable", Elem: en, Dims: []int{n}, Idx: []int{order, i}})
					}
				}
			}
			for oa := 0; oa <= 2; oa++ {
				for ob := 0; ob <= 2; ob++ {
					for na := 1; na <= 3; na++ {
						for nb := 1; nb <= 3; nb++ {
							for op := 0; op < 5; op++ {
								emit(LCase{Op: "dyadic-different-N", Elem: en, Dims: []int{na, nb}, Idx: []int{oa, ob, op}})
							}
						}
					}
				}
			}
		}
	}
}
