package main

// Termination of the optimizers on STALLING configurations: the iteration reaches a point at
// which no further progress is possible although the stop criterion does not hold —
// constraints that are active at the (unconstrained) solution, tolerances below the
// attainable residual, objectives whose root / minimum is hit exactly, flat objectives.
// Every run must return (result or error) within the evaluation / tick budget.
//
// Epsilon{0}: the optimizers test `norm < epsilon` (strictly) and do not validate epsilon; the
// library's own programs (demo/logisticPerformance, demo/rosenbrockPerformance) pass
// Epsilon{0.0} together with MaxIterations{N} to run exactly N iterations. Epsilon{0} is
// therefore taken as admissible and as meaning "no tolerance stop": it is enumerated with a
// finite MaxIterations only (with the default MaxIterations = MaxInt the caller asks for 2^63
// iterations; not returning is then the requested behaviour). gradientDescent has no
// MaxIterations option, so Epsilon{0} is not enumerated for it. A tiny POSITIVE epsilon
// (1e-30) is an ordinary option value and is enumerated with the default MaxIterations.

import (
	"fmt"
	"math"

	ad "github.com/pbenner/autodiff"
	"github.com/pbenner/autodiff/algorithm/bfgs"
	"github.com/pbenner/autodiff/algorithm/gradientDescent"
	"github.com/pbenner/autodiff/algorithm/newton"
	"github.com/pbenner/autodiff/algorithm/rprop"

	"verif/mc/vf"
)

// SCase: one stalling configuration (replay artefact).
type SCase struct {
	Routine   string    `json:"routine"`
	Opts      string    `json:"options"`   // Hessian modification of newton.RunCrit/RunMin
	Objective string    `json:"objective"` // see objectives below
	X0        []float64 `json:"x0"`
	Con       string    `json:"constraint"` // "", "le" (x0<=hi), "ge" (x0>=lo), "box" (all lo<=xi<=hi)
	Lo        float64   `json:"lo"`
	Hi        float64   `json:"hi"`
	Eps       string    `json:"epsilon"` // "default", "tiny" (1e-30), "zero+maxit" (Epsilon{0}, MaxIterations{50})
}

const tinyEps = 1e-30
const stallMaxIt = 50

// every stage-1 exceedance of the (cheap) stalling family is confirmed under the full budget, so a
// listed open finding does not turn the run into a capped one
const stallConfirmPerKey = 256

func (cs *SCase) feasible(x []float64) bool {
	switch cs.Con {
	case "le":
		return x[0] <= cs.Hi
	case "ge":
		return x[0] >= cs.Lo
	case "box":
		for _, v := range x {
			if !(cs.Lo <= v && v <= cs.Hi) {
				return false
			}
		}
	}
	return true
}

// strictly inside the feasible set
func (cs *SCase) interior(x []float64) bool {
	switch cs.Con {
	case "le":
		return x[0] < cs.Hi
	case "ge":
		return x[0] > cs.Lo
	case "box":
		for _, v := range x {
			if !(cs.Lo < v && v < cs.Hi) {
				return false
			}
		}
	}
	return true
}

// solutions of the unconstrained problem (nil: every point is a solution)
func solutions(obj string, d int) [][]float64 {
	signs := func(v float64) [][]float64 {
		out := [][]float64{{}}
		for i := 0; i < d; i++ {
			var nx [][]float64
			for _, p := range out {
				nx = append(nx, append(append([]float64{}, p...), v), append(append([]float64{}, p...), -v))
			}
			out = nx
		}
		return out
	}
	one := make([]float64, d)
	for i := range one {
		one[i] = 1
	}
	switch obj {
	case "quad", "quartic", "lin":
		return [][]float64{one}
	case "sq-1":
		return signs(1)
	case "sq-2":
		return signs(math.Sqrt2)
	case "circle-line":
		return [][]float64{{math.Sqrt2, math.Sqrt2}, {-math.Sqrt2, -math.Sqrt2}}
	}
	return nil // flat
}

// conClass: where the unconstrained solutions lie relative to the constraint.
func (cs *SCase) conClass() string {
	if cs.Con == "" {
		return "unconstrained"
	}
	if !cs.feasible(cs.X0) {
		return "start-infeasible"
	}
	sols := solutions(cs.Objective, len(cs.X0))
	if sols == nil {
		return "constraint-inactive"
	}
	cl := "constraint-active-at-solution" // no unconstrained solution is feasible
	for _, s := range sols {
		if cs.interior(s) {
			return "constraint-inactive"
		}
		if cs.feasible(s) {
			cl = "solution-on-boundary"
		}
	}
	return cl
}

// class is the structural part of the violation key: the routine's stalling mechanisms differ
// by where the constraint bites and by the kind of tolerance, not by objective or Hessian
// modification (those are in the replay artefact).
func (cs *SCase) class() string {
	return fmt.Sprintf("stall:%s|eps=%s", cs.conClass(), cs.Eps)
}

// samePointRun: length of the current run of consecutive objective evaluations at one and the
// same point (set by runStall; read by stall() right after the call).
var samePointRun int64

func runStall(cs *SCase, evalBudget, tickBudget int64) (status, label string, calls int64) {
	d := len(cs.X0)
	samePointRun = 0
	var lastX []float64
	begin := func(x ad.ConstVector) {
		same := len(lastX) == x.Dim()
		for i := 0; i < x.Dim(); i++ {
			v := x.ConstAt(i).GetFloat64()
			if same && lastX[i] != v {
				same = false
			}
			if i < len(lastX) {
				lastX[i] = v
			} else {
				lastX = append(lastX, v)
			}
		}
		if same {
			samePointRun++
		} else {
			samePointRun = 0
		}
		calls++
		if calls > evalBudget {
			panic(evalBudgetExceeded{evalBudget})
		}
	}
	c := func(v float64) ad.ConstScalar { return ad.ConstFloat64(v) }
	// scalar objectives
	fv := func(x ad.ConstVector) (ad.MagicScalar, error) {
		begin(x)
		y := ad.NewReal64(0)
		t := ad.NewReal64(0)
		switch cs.Objective {
		case "quad", "quartic":
			for i := 0; i < x.Dim(); i++ {
				t.Sub(x.ConstAt(i), c(1))
				t.Mul(t, t)
				if cs.Objective == "quartic" {
					t.Mul(t, t)
				}
				y.Add(y, t)
			}
		case "flat":
			// constant 3, written so that the result carries (zero) derivatives
			for i := 0; i < x.Dim(); i++ {
				t.Mul(x.ConstAt(i), c(0))
				y.Add(y, t)
			}
			y.Add(y, c(3))
		default:
			panic("harness: unknown scalar objective " + cs.Objective)
		}
		return y, nil
	}
	// vector objectives (root finding)
	fr := func(x ad.ConstVector) (ad.MagicVector, error) {
		begin(x)
		r := ad.NullDenseReal64Vector(x.Dim())
		t := ad.NewReal64(0)
		switch cs.Objective {
		case "sq-1", "sq-2":
			k := 1.0
			if cs.Objective == "sq-2" {
				k = 2
			}
			for i := 0; i < x.Dim(); i++ {
				r.At(i).Mul(x.ConstAt(i), x.ConstAt(i))
				r.At(i).Sub(r.At(i), c(k))
			}
		case "lin":
			for i := 0; i < x.Dim(); i++ {
				r.At(i).Sub(x.ConstAt(i), c(1))
			}
		case "flat":
			for i := 0; i < x.Dim(); i++ {
				r.At(i).Mul(x.ConstAt(i), c(0))
			}
		case "circle-line":
			r.At(0).Mul(x.ConstAt(0), x.ConstAt(0))
			t.Mul(x.ConstAt(1), x.ConstAt(1))
			r.At(0).Add(r.At(0), t)
			r.At(0).Sub(r.At(0), c(4))
			r.At(1).Sub(x.ConstAt(0), x.ConstAt(1))
		default:
			panic("harness: unknown vector objective " + cs.Objective)
		}
		return r, nil
	}
	feas := func(x ad.Vector) bool {
		v := make([]float64, x.Dim())
		for i := range v {
			v[i] = x.At(i).GetFloat64()
		}
		return cs.feasible(v)
	}
	x0 := func() ad.Vector { return ad.NewDenseFloat64Vector(append([]float64{}, cs.X0...)) }
	var err error
	status, pan, _ := guarded(tickBudget, func() {
		switch cs.Routine {
		case "newton.RunRoot", "newton.RunCrit", "newton.RunMin":
			args := []interface{}{}
			if cs.Con != "" {
				args = append(args, newton.Constraints{Value: feas})
			}
			switch cs.Eps {
			case "tiny":
				args = append(args, newton.Epsilon{Value: tinyEps})
			case "zero+maxit":
				args = append(args, newton.Epsilon{Value: 0}, newton.MaxIterations{Value: stallMaxIt})
			}
			switch cs.Routine {
			case "newton.RunRoot":
				_, err = newton.RunRoot(fr, x0(), args...)
			case "newton.RunCrit":
				_, err = newton.RunCrit(fv, x0(), append(args, newton.HessianModification{Value: cs.Opts})...)
			default:
				_, err = newton.RunMin(fv, x0(), append(args, newton.HessianModification{Value: cs.Opts})...)
			}
		case "bfgs":
			args := []interface{}{}
			if cs.Con != "" {
				args = append(args, bfgs.Constraints{Value: feas})
			}
			switch cs.Eps {
			case "tiny":
				args = append(args, bfgs.Epsilon{Value: tinyEps})
			case "zero+maxit":
				args = append(args, bfgs.Epsilon{Value: 0}, bfgs.MaxIterations{Value: stallMaxIt})
			}
			_, err = bfgs.Run(fv, x0(), args...)
		case "rprop":
			args := []interface{}{}
			if cs.Con != "" {
				args = append(args, rprop.Constraints{Value: feas})
			}
			switch cs.Eps {
			case "tiny":
				args = append(args, rprop.Epsilon{Value: tinyEps})
			case "zero+maxit":
				args = append(args, rprop.Epsilon{Value: 0}, rprop.MaxIterations{Value: stallMaxIt})
			}
			_, err = rprop.Run(fv, x0(), 0.1, []float64{1.2, 0.5}, args...)
		case "gradientDescent":
			args := []interface{}{}
			if cs.Eps == "tiny" {
				args = append(args, gradientDescent.Epsilon{Value: tinyEps})
			}
			_, err = gradientDescent.Run(fv, x0(), 0.1, args...)
		default:
			panic("harness: unknown routine " + cs.Routine)
		}
	})
	_ = d
	switch status {
	case "returned":
		label = "result"
		if err != nil {
			label = "error"
		}
	case "panic":
		label = "panic"
		if s, ok := pan.(string); ok && len(s) > 8 && s[:8] == "harness:" {
			label = "HARNESS:" + s
		}
	default:
		label = "TICK"
	}
	return
}

func (s *stager) stall(cs *SCase, rank int64) {
	c := s.c
	d := len(cs.X0)
	env := Envelope{Kind: "stall", S: cs}
	c.Guard("stall|"+cs.Routine, rank, env)
	status, label, calls := runStall(cs, evalStage1, budgetFull(d))
	c.Eval(1)
	if status == "TICK" {
		// how it spins separates the mechanisms: an inner loop that never evaluates the objective
		// again (step reduction; independent of epsilon), an iteration that evaluates one and the
		// same point again and again (a stalled iterate is accepted), or one that keeps moving
		// (creeping along an active constraint, alternating between neighbouring numbers)
		var key string
		switch {
		case calls < 50:
			key = fmt.Sprintf("TICK|%s|stall:%s|spinning-without-evaluation", cs.Routine, cs.conClass())
		case samePointRun >= 20:
			key = fmt.Sprintf("TICK|%s|%s|re-evaluating-one-point", cs.Routine, cs.class())
		default:
			key = fmt.Sprintf("TICK|%s|%s|re-evaluating", cs.Routine, cs.class())
		}
		if s.confirmed[key] < stallConfirmPerKey {
			status, label, calls = runStall(cs, evalFull, budgetFull(d))
			if status == "TICK" {
				s.confirmed[key]++
				c.Violate(key, fmt.Sprintf("%s(%s) does not return within %d objective evaluations / %d loop ticks: objective %s, x0=%v, constraint %s[%g,%g], epsilon %s", cs.Routine, optName(cs.Opts), evalFull, budgetFull(d), cs.Objective, cs.X0, optName(cs.Con), cs.Lo, cs.Hi, cs.Eps), rank, env)
			} else {
				c.Count("slow_but_within_full_budget", 1)
			}
		} else {
			c.Count("over_stage1_budget_presumed_spin:"+key, 1)
			c.Cap("full-budget confirmation skipped after " + fmt.Sprint(stallConfirmPerKey) + " confirmed spins per key (only when a TICK violation exists)")
		}
	}
	if len(label) > 8 && label[:8] == "HARNESS:" {
		c.HarnessError(label)
		return
	}
	c.Outcome("stall|" + cs.Routine + "|" + cs.conClass() + "|eps=" + cs.Eps + "|" + label)
	if status != "TICK" {
		dd := 0
		for t := calls; t >= 10; t /= 10 {
			dd++
		}
		c.Count(fmt.Sprintf("stall_objective_calls<1e%d", dd+1), 1)
		// non-trivial: the routine iterated (more than the initial evaluation) from a feasible start
		if calls >= 2 && cs.conClass() != "start-infeasible" {
			c.Nontrivial(1)
		}
	}
}

type conSpec struct {
	kind   string
	lo, hi float64
}

func termStalls(c *vf.Ctx, idx *int64) {
	st := &stager{c: c, confirmed: map[string]int{}}
	type rt struct {
		name  string
		opts  []string
		objs  []string
		con   bool
		zeroE bool
	}
	scalarObjs := []string{"quad", "quartic", "flat"}
	routines := []rt{
		{"newton.RunRoot", []string{""}, []string{"lin", "sq-1", "sq-2", "flat", "circle-line"}, true, true},
		{"newton.RunCrit", []string{"None", "LDL", "Eigenvalue"}, scalarObjs, true, true},
		{"newton.RunMin", []string{"None", "LDL", "Eigenvalue"}, scalarObjs, true, true},
		{"bfgs", []string{""}, scalarObjs, true, true},
		{"rprop", []string{""}, scalarObjs, true, true},
		{"gradientDescent", []string{""}, scalarObjs, false, false},
	}
	starts := [][]float64{{0}, {0.5}, {1}, {3}, {0.5, 0.25}, {0, 3}, {1, 1}}
	cons := []conSpec{{"", 0, 0}}
	for _, b := range []float64{0, 1, 2} {
		cons = append(cons, conSpec{"le", 0, b}, conSpec{"ge", b, 0})
	}
	cons = append(cons, conSpec{"box", 0, 1}, conSpec{"box", 1, 3}, conSpec{"box", 0, 3}, conSpec{"box", -1, 0.5})
	if c.Thorough() {
		starts = append(starts, []float64{-2}, []float64{2}, []float64{3, -2}, []float64{0.5, 0.5, 0.25})
		for _, b := range []float64{-1, 0.5, 1.5} {
			cons = append(cons, conSpec{"le", 0, b}, conSpec{"ge", b, 0})
		}
		cons = append(cons, conSpec{"box", -3, 3}, conSpec{"box", 0.5, 1})
	}
	for _, r := range routines {
		for _, o := range r.opts {
			for _, ob := range r.objs {
				for _, x0 := range starts {
					if ob == "circle-line" && len(x0) != 2 {
						continue
					}
					for _, cn := range cons {
						if cn.kind != "" && !r.con {
							continue
						}
						for _, eps := range []string{"default", "tiny", "zero+maxit"} {
							if eps == "zero+maxit" && !r.zeroE {
								continue
							}
							// degenerate minimum (quartic): first-order and quasi-Newton methods converge
							// sublinearly there, an evaluation budget cannot tell that from a stall; only
							// Newton's method (linear rate 2/3) is run against the unattainable tolerance,
							// and plain gradient descent (1/sqrt(k)) not at all
							if ob == "quartic" && (r.name == "gradientDescent" || eps == "tiny" && r.name != "newton.RunCrit" && r.name != "newton.RunMin") {
								continue
							}
							*idx++
							if !c.Mine(*idx) {
								continue
							}
							cs := &SCase{Routine: r.name, Opts: o, Objective: ob, X0: x0, Con: cn.kind, Lo: cn.lo, Hi: cn.hi, Eps: eps}
							st.stall(cs, int64(len(x0)*100))
						}
					}
				}
			}
		}
	}
}
