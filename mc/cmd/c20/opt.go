package main

// Termination of the optimizers / line search against an adversarial objective: a convex
// quadratic that, from call k on, returns NaN / +Inf / -Inf (value only, or value and
// gradient), or an error. MaxIterations is left at its default. Budget: 1e5 objective
// evaluations and 2e5·(d+1)^3 loop ticks.

import (
	"errors"
	"fmt"

	ad "github.com/pbenner/autodiff"
	"github.com/pbenner/autodiff/algorithm/bfgs"
	"github.com/pbenner/autodiff/algorithm/gradientDescent"
	"github.com/pbenner/autodiff/algorithm/lineSearch"
	"github.com/pbenner/autodiff/algorithm/newton"
	"github.com/pbenner/autodiff/algorithm/rprop"

	"verif/mc/vf"
)

type evalBudgetExceeded struct{ n int64 }

// OCase: one optimizer termination case (replay artefact).
type OCase struct {
	Routine  string    `json:"routine"`
	Opts     string    `json:"options"`
	X0       []float64 `json:"x0"`
	Value    string    `json:"poison_value"` // NaN, +Inf, -Inf, error, none
	Mode     string    `json:"poison_mode"`  // add (value only), mul (value and gradient)
	FromCall int       `json:"from_call"`    // objective call index (1-based) from which on it is poisoned
}

func (cs *OCase) class() string {
	if cs.Value == "none" {
		return "well-behaved-objective"
	}
	when := "from-call-k"
	if cs.FromCall <= 1 {
		when = "always"
	}
	v := map[string]string{"NaN": "nan", "+Inf": "inf", "-Inf": "inf", "error": "error"}[cs.Value]
	if cs.Value == "error" {
		return "objective-error-" + when
	}
	g := "value-only"
	if cs.Mode == "mul" {
		g = "value+gradient"
	}
	return fmt.Sprintf("objective-%s-%s(%s)", v, when, g)
}

const evalFull, evalStage1 = 100000, 2000

func runOpt(cs *OCase, evalBudget int64, tickBudget int64) (status, label string, calls int64) {
	d := len(cs.X0)
	// begin counts one objective call and tells whether its answer is poisoned
	begin := func() (bool, error) {
		calls++
		if calls > evalBudget {
			panic(evalBudgetExceeded{evalBudget})
		}
		if cs.Value == "none" || calls < int64(cs.FromCall) {
			return false, nil
		}
		if cs.Value == "error" {
			return true, errors.New("objective failed")
		}
		return true, nil
	}
	apply := func(y ad.Scalar) {
		v := ad.ConstFloat64(special(cs.Value))
		if cs.Mode == "mul" {
			y.Mul(y, v)
		} else {
			y.Add(y, v)
		}
	}
	// f(x) = sum (x_i - 1)^2
	fv := func(x ad.ConstVector) (ad.MagicScalar, error) {
		p, err := begin()
		if err != nil {
			return nil, err
		}
		y := ad.NewReal64(0)
		t := ad.NewReal64(0)
		for i := 0; i < x.Dim(); i++ {
			t.Sub(x.ConstAt(i), ad.ConstFloat64(1))
			t.Mul(t, t)
			y.Add(y, t)
		}
		if p {
			apply(y)
		}
		return y, nil
	}
	fs := func(x ad.ConstScalar) (ad.MagicScalar, error) {
		p, err := begin()
		if err != nil {
			return nil, err
		}
		y := ad.NewReal64(0)
		y.Sub(x, ad.ConstFloat64(1))
		y.Mul(y, y)
		if p {
			apply(y)
		}
		return y, nil
	}
	// g(x)_i = x_i^2 - 1 (root finding)
	fr := func(x ad.ConstVector) (ad.MagicVector, error) {
		p, err := begin()
		if err != nil {
			return nil, err
		}
		r := ad.NullDenseReal64Vector(x.Dim())
		for i := 0; i < x.Dim(); i++ {
			r.At(i).Mul(x.ConstAt(i), x.ConstAt(i))
			r.At(i).Sub(r.At(i), ad.ConstFloat64(1))
			if p {
				apply(r.At(i))
			}
		}
		return r, nil
	}
	x0 := func() ad.Vector { return ad.NewDenseFloat64Vector(append([]float64{}, cs.X0...)) }
	var err error
	status, pan, _ := guarded(tickBudget, func() {
		switch cs.Routine {
		case "lineSearch":
			_, err = lineSearch.Run(fs, ad.Float64Type)
		case "rprop":
			_, err = rprop.Run(fv, x0(), 0.1, []float64{1.2, 0.5})
		case "gradientDescent":
			_, err = gradientDescent.Run(fv, x0(), 0.1)
		case "bfgs":
			_, err = bfgs.Run(fv, x0())
		case "newton.RunRoot":
			_, err = newton.RunRoot(fr, x0())
		case "newton.RunCrit":
			_, err = newton.RunCrit(fv, x0(), newton.HessianModification{Value: cs.Opts})
		case "newton.RunMin":
			_, err = newton.RunMin(fv, x0(), newton.HessianModification{Value: cs.Opts})
		default:
			panic("harness: unknown routine " + cs.Routine)
		}
	})
	_ = d
	switch status {
	case "returned":
		label = "result"
		if err != nil {
			label = "error"
		}
	case "panic":
		label = "panic"
		if s, ok := pan.(string); ok && len(s) > 8 && s[:8] == "harness:" {
			label = "HARNESS:" + s
		}
	default:
		label = "TICK"
	}
	return
}

func (s *stager) opt(cs *OCase, rank int64) {
	c := s.c
	d := len(cs.X0)
	env := Envelope{Kind: "optimizer", O: cs}
	c.Guard("term|"+cs.Routine, rank, env)
	status, label, calls := runOpt(cs, evalStage1, budgetFull(d))
	c.Eval(1)
	key := fmt.Sprintf("TICK|%s|%s|%s", cs.Routine, optName(cs.Opts), cs.class())
	if status == "TICK" {
		if s.confirmed[key] < confirmPerKey {
			status, label, calls = runOpt(cs, evalFull, budgetFull(d))
			if status == "TICK" {
				s.confirmed[key]++
				c.Violate(key, fmt.Sprintf("%s with default MaxIterations does not return within %d objective evaluations / %d loop ticks when the objective is %s (x0=%v, poisoned from call %d)", cs.Routine, evalFull, budgetFull(d), cs.class(), cs.X0, cs.FromCall), rank, env)
			} else {
				c.Count("slow_but_within_full_budget", 1)
			}
		} else {
			c.Count("over_stage1_budget_presumed_spin:"+key, 1)
			c.Cap("full-budget confirmation skipped after " + fmt.Sprint(confirmPerKey) + " confirmed spins per key (only when a TICK violation exists)")
		}
	}
	if len(label) > 8 && label[:8] == "HARNESS:" {
		c.HarnessError(label)
		return
	}
	c.Outcome("term|" + cs.Routine + "|" + cs.class() + "|" + label)
	if status != "TICK" {
		dd := 0
		for t := calls; t >= 10; t /= 10 {
			dd++
		}
		c.Count(fmt.Sprintf("objective_calls<1e%d", dd+1), 1)
		if cs.Value != "none" && calls >= int64(cs.FromCall) {
			c.Nontrivial(1) // the poisoned answer was actually delivered
		}
	}
}

func termOptimizers(c *vf.Ctx, idx *int64) {
	st := &stager{c: c, confirmed: map[string]int{}}
	type rt struct {
		name string
		opts []string
	}
	routines := []rt{
		{"lineSearch", []string{""}},
		{"rprop", []string{""}},
		{"gradientDescent", []string{""}},
		{"bfgs", []string{""}},
		{"newton.RunRoot", []string{""}},
		{"newton.RunCrit", []string{"None", "LDL", "Eigenvalue"}},
		{"newton.RunMin", []string{"None", "LDL", "Eigenvalue"}},
	}
	starts := [][]float64{{0}, {3}, {0, 3}}
	if c.Thorough() {
		starts = append(starts, []float64{-2}, []float64{3, -2}, []float64{1}, []float64{0, 0, 3})
	}
	type ps struct {
		val, mode string
	}
	poisons := []ps{{"none", ""}, {"NaN", "mul"}, {"NaN", "add"}, {"+Inf", "mul"}, {"+Inf", "add"}, {"-Inf", "mul"}, {"-Inf", "add"}, {"error", ""}}
	for _, r := range routines {
		for _, o := range r.opts {
			for _, x0 := range starts {
				if r.name == "lineSearch" && len(x0) > 1 {
					continue
				}
				for _, p := range poisons {
					for k := 1; k <= 5; k++ {
						if p.val == "none" && k > 1 {
							continue
						}
						*idx++
						if !c.Mine(*idx) {
							continue
						}
						cs := &OCase{Routine: r.name, Opts: o, X0: x0, Value: p.val, Mode: p.mode, FromCall: k}
						st.opt(cs, int64(len(x0)*100+k))
					}
				}
			}
		}
	}
}
