package main

// Sign / scale variants of the termination inputs, inputs with couplings below the rounding
// level of the other entries, and block compositions (direct sums, block triangular matrices)
// of the small degenerate families.
//
// Every transformed entry is s · 2^k · d_i·d_j · a_ij with s, d_i = ±1: exact in float64, so a
// routine whose tests are all relative behaves bit for bit as on the untransformed input; a
// difference is the footprint of a test that depends on the sign or on the absolute size.

import (
	"fmt"
	"strings"

	"verif/mc/cmd/c05/lat"
	"verif/mc/vf"
)

type xform struct {
	neg   bool
	exp   int
	signs int
}

// tinyExp: 2^-56 ≈ 1.4e-17 is below the rounding level of 1 (2^-53) and above the default
// relative deflation tolerance 1e-18·(|a|+|b|) of the eigenvalue routines.
const tinyExpQuick = -56

func tinyExps(thorough bool) []int {
	if thorough {
		// 2^-52: just above the absolute floor 2.220446e-16·max|a_ij|; 2^-64: below 1e-18
		return []int{-56, -52, -64}
	}
	return []int{tinyExpQuick}
}

func scalesFor(thorough bool) []int {
	if thorough {
		return []int{40, -40, 100, -100}
	}
	return []int{40, -40}
}

// xformSet: the non-identity transforms, one kind at a time, each also combined with the
// negation: −A; 2^k·A, −2^k·A for every scale; D·A·D, −D·A·D for every D = diag(±1) ≠ ±I.
func xformSet(n int, neg bool, scales []int, signs bool) []xform {
	var xs []xform
	negs := []bool{false}
	if neg {
		negs = append(negs, true)
		xs = append(xs, xform{neg: true})
	}
	for _, k := range scales {
		for _, s := range negs {
			xs = append(xs, xform{neg: s, exp: k})
		}
	}
	if signs {
		// masks with bit n-1 clear: D and −D give the same D·A·D
		for m := 1; m < 1<<uint(n-1); m++ {
			for _, s := range negs {
				xs = append(xs, xform{neg: s, signs: m})
			}
		}
	}
	return xs
}

// xforms of a lattice matrix. The lattices are closed under A → −A and A → D·A·D (symmetric
// alphabets), so only the scalings are new inputs. quick: 2x2, 3x2 and the symmetric 3x3
// matrices; thorough: also the other 3x3{-1,0,1}, the 4x2 and (2^±40 only) the symmetric 3x3{-2..2}
// matrices.
func (l mlattice) xforms(base []int, thorough bool) []xform {
	ok := false
	switch l.name {
	case "2x2{-2..2}", "3x2{-1,0,1}":
		ok = true
	case "3x3{-1,0,1}":
		ok = thorough || lat.IsSymmetric(base, 3)
	case "4x2{-1,0,1}":
		ok = thorough
	case "3x3sym{-2..2}":
		if thorough {
			return xformSet(l.r, false, scalesFor(thorough)[:2], false)
		}
	}
	if !ok {
		return nil
	}
	return xformSet(l.r, false, scalesFor(thorough), false)
}

func (cs *MCase) symmetric() bool {
	if cs.R != cs.C {
		return false
	}
	if !lat.IsSymmetric(cs.Base, cs.R) {
		return false
	}
	return cs.Tiny == nil || lat.IsSymmetric(cs.Tiny, cs.R)
}

func (cs *MCase) transformText() string {
	var t []string
	if cs.Tiny != nil {
		t = append(t, fmt.Sprintf("entries ±2^%d", cs.TinyExp))
	}
	if cs.Negated {
		t = append(t, "negated")
	}
	if cs.ScaleExp != 0 {
		t = append(t, fmt.Sprintf("scaled by 2^%d", cs.ScaleExp))
	}
	if cs.SignMask != 0 {
		t = append(t, fmt.Sprintf("D·A·D with sign mask %b", cs.SignMask))
	}
	if len(t) == 0 {
		return ""
	}
	return " (" + strings.Join(t, ", ") + ")"
}

// neededTransforms names the transforms of a failing case without which the stage-1 budget is
// kept (so that a defect that does not depend on sign/scale keeps the key of the plain input).
func neededTransforms(cs *MCase, budget int64) string {
	t := *cs
	var need []string
	if t.Negated {
		u := t
		u.Negated = false
		if st, _, _ := runMatrix(&u, budget); st == "TICK" {
			t = u
		} else {
			need = append(need, "negated")
		}
	}
	if t.ScaleExp != 0 {
		u := t
		u.ScaleExp = 0
		if st, _, _ := runMatrix(&u, budget); st == "TICK" {
			t = u
		} else if t.ScaleExp > 0 {
			need = append(need, "scaled-up")
		} else {
			need = append(need, "scaled-down")
		}
	}
	if t.SignMask != 0 {
		u := t
		u.SignMask = 0
		if st, _, _ := runMatrix(&u, budget); st == "TICK" {
			t = u
		} else {
			need = append(need, "sign-similar")
		}
	}
	if len(need) == 0 {
		return ""
	}
	return "only-when:" + strings.Join(need, "+")
}

type runTFn func(t MCase, mode int, elems []string, forceClass string, rank int64)
type runXFn func(t MCase, xs []xform, forceClass string, rank int64)

// ---- couplings below the rounding level ----------------------------------------------------

// termTiny: matrices with entries from {0, ±1, ±2} and ±τ, τ = 2^-56 (thorough also 2^-52,
// 2^-64), at least one ±τ:
//
//	T2   all 2x2 matrices over {0,±1,±2,±τ}
//	T3s  symmetric 3x3, diagonal over {-1,0,1}, off-diagonal over {0,±τ,1} (thorough, τ = 2^-56:
//	     diagonal over {-2..2}, off-diagonal over {0,±τ,±1}), and their negatives
//	T3g  3x3 with diagonal over {-1,0,1}, strict lower triangle over {0,±τ}, strict upper
//	     triangle all 0 or all 1 (thorough, τ = 2^-56: every {0,1} pattern), and their negatives
//
// T2 is closed under negation and D·A·D and is run with every scaling; T3s and T3g are scaled by
// 2^±40 in thorough.
func termTiny(c *vf.Ctx, idx *int64, runT runTFn, runX runXFn) {
	th := c.Thorough()
	for _, te := range tinyExps(th) {
		sc := xformSet(2, false, scalesFor(th), false)
		// code: 0..4 = E5 value, 5 = +τ, 6 = −τ
		split := func(code []int) (base, tiny []int, has bool) {
			base, tiny = make([]int, len(code)), make([]int, len(code))
			for i, d := range code {
				switch {
				case d < 5:
					base[i] = lat.E5[d]
				case d == 5:
					tiny[i], has = 1, true
				default:
					tiny[i], has = -1, true
				}
			}
			return
		}
		rankOf := func(base, tiny []int) int64 { return lat.Weight(base) + 3*lat.Weight(tiny) }
		// T2
		for i := int64(0); i < lat.Pow(7, 4); i++ {
			code := make([]int, 4)
			for k, j := 0, i; k < 4; k, j = k+1, j/7 {
				code[k] = int(j % 7)
			}
			base, tiny, has := split(code)
			if !has {
				continue
			}
			*idx++
			if !c.Mine(*idx) {
				continue
			}
			t := MCase{R: 2, C: 2, Base: base, Tiny: tiny, TinyExp: te}
			runT(t, planLean, elems2[:1], "tiny-coupling", rankOf(base, tiny))
			runX(t, sc, "tiny-coupling", rankOf(base, tiny))
			c.Count("family:tiny-coupling-2x2", 1)
		}
		// T3s: digits: 3 diagonal, 3 off-diagonal
		dE := []int{0, 1, 2} // codes of 0, 1, -1
		oE := []int{0, 5, 6, 1}
		wide := th && te == tinyExpQuick
		if wide {
			dE = []int{0, 1, 2, 3, 4}
			oE = []int{0, 5, 6, 1, 2}
		}
		negs := xformSet(3, true, nil, false)
		if th {
			negs = xformSet(3, true, scalesFor(th)[:2], false)
		}
		nd, no := int64(len(dE)), int64(len(oE))
		for i := int64(0); i < nd*nd*nd*no*no*no; i++ {
			j := i
			code := make([]int, 9)
			for a := 0; a < 3; a++ {
				code[a*3+a] = dE[j%nd]
				j /= nd
			}
			for a := 0; a < 3; a++ {
				for b := a + 1; b < 3; b++ {
					code[a*3+b] = oE[j%no]
					code[b*3+a] = code[a*3+b]
					j /= no
				}
			}
			base, tiny, has := split(code)
			if !has {
				continue
			}
			*idx++
			if !c.Mine(*idx) {
				continue
			}
			t := MCase{R: 3, C: 3, Base: base, Tiny: tiny, TinyExp: te}
			runT(t, planLean, elems2[:1], "tiny-coupling", rankOf(base, tiny))
			runX(t, negs, "tiny-coupling", rankOf(base, tiny))
			c.Count("family:tiny-coupling-3x3-symmetric", 1)
		}
		// T3g
		var uppers [][]int
		if wide {
			for u := 0; u < 8; u++ {
				uppers = append(uppers, []int{u & 1, u >> 1 & 1, u >> 2 & 1})
			}
		} else {
			uppers = [][]int{{0, 0, 0}, {1, 1, 1}}
		}
		lE := []int{0, 5, 6}
		for _, up := range uppers {
			for i := int64(0); i < 27*27; i++ {
				j := i
				code := make([]int, 9)
				for a := 0; a < 3; a++ {
					code[a*3+a] = []int{0, 1, 2}[j%3]
					j /= 3
				}
				k := 0
				for a := 0; a < 3; a++ {
					for b := a + 1; b < 3; b++ {
						code[a*3+b] = up[k]
						code[b*3+a] = lE[j%3]
						j /= 3
						k++
					}
				}
				base, tiny, has := split(code)
				if !has {
					continue
				}
				*idx++
				if !c.Mine(*idx) {
					continue
				}
				t := MCase{R: 3, C: 3, Base: base, Tiny: tiny, TinyExp: te}
				runT(t, planLean, elems2[:1], "tiny-coupling", rankOf(base, tiny))
				runX(t, negs, "tiny-coupling", rankOf(base, tiny))
				c.Count("family:tiny-coupling-3x3-general", 1)
			}
		}
	}
}

// ---- block compositions -------------------------------------------------------------------

type block struct {
	n    int
	a    []int
	name string
}

func permBlock(name string, sigma []int, vals []int) block {
	n := len(sigma)
	a := make([]int, n*n)
	for i, j := range sigma {
		a[i*n+j] = vals[i]
	}
	return block{n, a, name}
}

func jordanBlock(n, lam int, lower bool) block {
	a := make([]int, n*n)
	for i := 0; i < n; i++ {
		a[i*n+i] = lam
		if i+1 < n {
			if lower {
				a[(i+1)*n+i] = 1
			} else {
				a[i*n+i+1] = 1
			}
		}
	}
	nm := fmt.Sprintf("J%d(%d)", n, lam)
	if lower {
		nm += "ᵀ"
	}
	return block{n, a, nm}
}

func onesBlock(n int) block {
	a := make([]int, n*n)
	for i := range a {
		a[i] = 1
	}
	return block{n, a, fmt.Sprintf("ones%d", n)}
}

// blockCatalogue: the small families of the lattice, by size.
func blockCatalogue(maxSize int) map[int][]block {
	one := func(k int) []int {
		v := make([]int, k)
		for i := range v {
			v[i] = 1
		}
		return v
	}
	cat := map[int][]block{}
	for _, v := range []int{0, 1, -1, 2} {
		cat[1] = append(cat[1], block{1, []int{v}, fmt.Sprintf("[%d]", v)})
	}
	cat[2] = []block{
		{2, []int{0, -1, 1, 0}, "rot"},
		{2, []int{0, 1, -1, 0}, "rotᵀ"},
		{2, []int{0, 1, 1, 0}, "swap"},
		jordanBlock(2, 0, false), jordanBlock(2, 0, true),
		jordanBlock(2, 1, false), jordanBlock(2, 1, true),
		onesBlock(2),
		{2, []int{1, -1, 1, -1}, "nilpotent-rank-one"},
		{2, []int{1, -1, 1, 1}, "complex"},
	}
	cat[3] = []block{
		permBlock("C3", []int{2, 0, 1}, one(3)),
		permBlock("C3ᵀ", []int{1, 2, 0}, one(3)),
		permBlock("P(01)", []int{1, 0, 2}, one(3)),
		permBlock("P(02)", []int{2, 1, 0}, one(3)),
		permBlock("P(12)", []int{0, 2, 1}, one(3)),
		permBlock("C3·diag(1,1,-1)", []int{2, 0, 1}, []int{1, 1, -1}),
		permBlock("C3·diag(2,1,1)", []int{2, 0, 1}, []int{1, 2, 1}),
		jordanBlock(3, 0, false), jordanBlock(3, 0, true),
		jordanBlock(3, 1, false), jordanBlock(3, 1, true),
		onesBlock(3),
	}
	if maxSize >= 4 {
		cat[4] = []block{
			permBlock("C4", []int{3, 0, 1, 2}, one(4)),
			permBlock("C4ᵀ", []int{1, 2, 3, 0}, one(4)),
			permBlock("C4·diag(1,1,1,-1)", []int{3, 0, 1, 2}, []int{1, 1, 1, -1}),
			permBlock("C2xC2", []int{1, 0, 3, 2}, one(4)),
			jordanBlock(4, 0, false), jordanBlock(4, 0, true),
			jordanBlock(4, 1, false),
			onesBlock(4),
		}
	}
	return cat
}

// compositions of total into parts 1..maxPart, at least two and at most maxParts parts, not all
// parts of size 1 (those are triangular matrices: no iteration).
func compositions(total, maxPart, maxParts int) [][]int {
	var out [][]int
	var rec func(rest int, cur []int)
	rec = func(rest int, cur []int) {
		if rest == 0 {
			big := false
			for _, p := range cur {
				if p > 1 {
					big = true
				}
			}
			if len(cur) >= 2 && big {
				out = append(out, append([]int{}, cur...))
			}
			return
		}
		if len(cur) == maxParts {
			return
		}
		for p := 1; p <= maxPart && p <= rest; p++ {
			rec(rest-p, append(cur, p))
		}
	}
	rec(total, nil)
	return out
}

var couplingNames = []string{"direct-sum", "upper-ones", "upper-corner", "lower-ones", "lower-corner"}

// compose builds diag(B_1..B_k) and fills every off-diagonal block above (coupling 1,2) or
// below (3,4) the diagonal: all ones, or a single 1 in the corner next to the diagonal.
func compose(bs []block, coupling int) (int, []int) {
	n := 0
	off := make([]int, len(bs))
	for i, b := range bs {
		off[i] = n
		n += b.n
	}
	a := make([]int, n*n)
	for i, b := range bs {
		for r := 0; r < b.n; r++ {
			for s := 0; s < b.n; s++ {
				a[(off[i]+r)*n+off[i]+s] = b.a[r*b.n+s]
			}
		}
	}
	for i := range bs {
		for j := i + 1; j < len(bs); j++ {
			switch coupling {
			case 1:
				for r := 0; r < bs[i].n; r++ {
					for s := 0; s < bs[j].n; s++ {
						a[(off[i]+r)*n+off[j]+s] = 1
					}
				}
			case 2:
				a[(off[i]+bs[i].n-1)*n+off[j]] = 1
			case 3:
				for r := 0; r < bs[j].n; r++ {
					for s := 0; s < bs[i].n; s++ {
						a[(off[j]+r)*n+off[i]+s] = 1
					}
				}
			case 4:
				a[off[j]*n+off[i]+bs[i].n-1] = 1
			}
		}
	}
	return n, a
}

// termComposites: diag(B_1,…,B_k) plus coupling blocks, for every ordered choice of blocks from
// the catalogue with total size 4 (thorough: 5 and 6 too, at most 3 blocks, blocks up to 4x4).
func termComposites(c *vf.Ctx, idx *int64, runT runTFn, runX runXFn) {
	th := c.Thorough()
	totals, maxPart, maxParts := []int{4}, 3, 4
	if th {
		totals, maxPart = []int{4, 5, 6}, 4
	}
	cat := blockCatalogue(maxPart)
	for _, total := range totals {
		mp := maxParts
		if total > 4 {
			mp = 3
		}
		xs := xformSet(total, true, nil, false)
		if th {
			xs = xformSet(total, true, scalesFor(th)[:2], total == 4)
		}
		for _, comp := range compositions(total, maxPart, mp) {
			cnt := int64(1)
			for _, p := range comp {
				cnt *= int64(len(cat[p]))
			}
			for i := int64(0); i < cnt; i++ {
				bs := make([]block, len(comp))
				j := i
				for k, p := range comp {
					bs[k] = cat[p][j%int64(len(cat[p]))]
					j /= int64(len(cat[p]))
				}
				for coupling := 0; coupling < len(couplingNames); coupling++ {
					*idx++
					if !c.Mine(*idx) {
						continue
					}
					if c.Expired() {
						c.Cap("soft deadline reached in the block compositions")
						return
					}
					n, a := compose(bs, coupling)
					cl := "block-triangular"
					if coupling == 0 {
						cl = "block-direct-sum"
					}
					t := MCase{R: n, C: n, Base: a}
					runT(t, planLean, elems2[:1], cl, lat.Weight(a))
					runX(t, xs, cl, lat.Weight(a))
					c.Count(fmt.Sprintf("family:block-composition-%dx%d", n, n), 1)
				}
			}
		}
	}
}
