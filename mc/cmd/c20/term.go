package main

// Termination of the matrix routines: every input of the lattices / degenerate families
// must return, report an error or panic within the deterministic loop-tick budget.

import (
	"encoding/json"
	"fmt"
	"math"
	"os"
	"strings"

	ad "github.com/pbenner/autodiff"
	"github.com/pbenner/autodiff/algorithm/cholesky"
	"github.com/pbenner/autodiff/algorithm/determinant"
	"github.com/pbenner/autodiff/algorithm/eigensystem"
	"github.com/pbenner/autodiff/algorithm/gaussJordan"
	"github.com/pbenner/autodiff/algorithm/gramSchmidt"
	"github.com/pbenner/autodiff/algorithm/hessenbergReduction"
	"github.com/pbenner/autodiff/algorithm/householderBidiagonalization"
	"github.com/pbenner/autodiff/algorithm/householderTridiagonalization"
	"github.com/pbenner/autodiff/algorithm/matrixInverse"
	"github.com/pbenner/autodiff/algorithm/msqrt"
	"github.com/pbenner/autodiff/algorithm/msqrtInv"
	"github.com/pbenner/autodiff/algorithm/qrAlgorithm"
	"github.com/pbenner/autodiff/algorithm/svd"
	verifrt "github.com/pbenner/autodiff/zz_verifrt"

	"verif/mc/cmd/c05/lat"
	"verif/mc/vf"
)

// MCase: one matrix-routine termination case (replay artefact).
type MCase struct {
	Routine string `json:"routine"`
	Opts    string `json:"options"`
	Elem    string `json:"elem"`
	R       int    `json:"rows"`
	C       int    `json:"cols"`
	Base    []int  `json:"matrix_row_major"`
	// one entry replaced by a non-finite value
	Pos   int    `json:"special_pos,omitempty"`
	Val   string `json:"special_value,omitempty"` // "NaN", "+Inf", "-Inf"
	Class string `json:"input_class"`
	// entry (i,j) = s · 2^ScaleExp · d_i·d_j · (Base[i,j] + Tiny[i,j]·2^TinyExp), s = -1 if Negated,
	// d_i = -1 if bit i of SignMask is set (square matrices only); all factors are exact in float64
	Tiny     []int `json:"tiny_row_major,omitempty"`
	TinyExp  int   `json:"tiny_exp2,omitempty"`
	Negated  bool  `json:"negated,omitempty"`
	ScaleExp int   `json:"scale_exp2,omitempty"`
	SignMask int   `json:"sign_mask,omitempty"`
}

func (cs *MCase) has(tok string) bool {
	for _, t := range strings.Split(cs.Opts, ",") {
		if t == tok {
			return true
		}
	}
	return false
}

func special(v string) float64 {
	switch v {
	case "NaN":
		return math.NaN()
	case "+Inf":
		return math.Inf(1)
	case "-Inf":
		return math.Inf(-1)
	}
	return 0
}

func (cs *MCase) matrix() ad.Matrix {
	v := make([]float64, len(cs.Base))
	for i, x := range cs.Base {
		v[i] = float64(x)
		if cs.Tiny != nil && cs.Tiny[i] != 0 {
			v[i] += math.Ldexp(float64(cs.Tiny[i]), cs.TinyExp)
		}
		if cs.Negated {
			v[i] = -v[i]
		}
		if cs.ScaleExp != 0 {
			v[i] = math.Ldexp(v[i], cs.ScaleExp)
		}
		if cs.SignMask != 0 {
			if a, b := i/cs.C, i%cs.C; (cs.SignMask>>uint(a))&1 != (cs.SignMask>>uint(b))&1 {
				v[i] = -v[i]
			}
		}
	}
	if cs.Val != "" {
		v[cs.Pos] = special(cs.Val)
	}
	if cs.Elem == "Real64" {
		return ad.NewDenseReal64Matrix(v, cs.R, cs.C)
	}
	return ad.NewDenseFloat64Matrix(v, cs.R, cs.C)
}

func budgetFull(n int) int64   { return 200000 * int64(n+1) * int64(n+1) * int64(n+1) }
func budgetStage1(n int) int64 { return 2000 * int64(n+1) * int64(n+1) * int64(n+1) }

// guarded runs fn under a tick budget; result: "returned", "panic", "TICK".
func guarded(budget int64, fn func()) (status string, pan any, ticks int64) {
	status = "returned"
	defer func() {
		if r := recover(); r != nil {
			switch r.(type) {
			case verifrt.BudgetExceeded, evalBudgetExceeded:
				status = "TICK"
			default:
				status, pan = "panic", r
			}
		}
		ticks = verifrt.Count()
		verifrt.Reset(0)
	}()
	verifrt.Reset(budget)
	fn()
	return
}

// runMatrix executes the routine once; outcome label is for vacuity statistics only.
func runMatrix(cs *MCase, budget int64) (status, label string, ticks int64) {
	a := cs.matrix()
	var err error
	status, pan, ticks := guarded(budget, func() {
		switch cs.Routine {
		case "qrAlgorithm":
			args := []interface{}{}
			if cs.has("U") {
				args = append(args, qrAlgorithm.ComputeU{Value: true})
			}
			if cs.has("Eps") {
				args = append(args, qrAlgorithm.Epsilon{Value: 1e-12})
			}
			if cs.has("Sym") {
				args = append(args, qrAlgorithm.Symmetric{Value: true})
			}
			_, _, err = qrAlgorithm.Run(a, args...)
		case "eigensystem":
			args := []interface{}{}
			if cs.has("Sym") {
				args = append(args, eigensystem.Symmetric{Value: true})
			}
			if cs.has("Vec=false") {
				args = append(args, eigensystem.ComputeEigenvectors{Value: false})
			}
			if cs.has("QrSym") {
				// options eigensystem does not know are handed on to qrAlgorithm.Run
				args = append(args, qrAlgorithm.Symmetric{Value: true})
			}
			_, _, err = eigensystem.Run(a, args...)
		case "svd":
			args := []interface{}{}
			if cs.has("U") {
				args = append(args, svd.ComputeU{Value: true})
			}
			if cs.has("V") {
				args = append(args, svd.ComputeV{Value: true})
			}
			if cs.has("Eps") {
				args = append(args, svd.Epsilon{Value: 1e-12})
			}
			_, _, _, err = svd.Run(a, args...)
		case "msqrt":
			_, err = msqrt.Run(a)
		case "msqrtInv":
			_, err = msqrtInv.Run(a)
		case "cholesky":
			args := []interface{}{}
			if cs.has("LDL") {
				args = append(args, cholesky.LDL{Value: true})
			}
			if cs.has("ForcePD") {
				args = append(args, cholesky.ForcePD{Value: true})
			}
			_, _, err = cholesky.Run(a, args...)
		case "gramSchmidt":
			_, _, err = gramSchmidt.Run(a)
		case "hessenberg":
			_, _, err = hessenbergReduction.Run(a, hessenbergReduction.ComputeU{Value: true})
		case "bidiag":
			_, _, _, err = householderBidiagonalization.Run(a, householderBidiagonalization.ComputeU{Value: true}, householderBidiagonalization.ComputeV{Value: true})
		case "tridiag":
			_, _, err = householderTridiagonalization.Run(a, householderTridiagonalization.ComputeU{Value: true})
		case "matrixInverse":
			args := []interface{}{}
			if cs.has("PD") {
				args = append(args, matrixInverse.PositiveDefinite{Value: true})
			}
			if cs.has("UT") {
				args = append(args, matrixInverse.UpperTriangular{Value: true})
			}
			_, err = matrixInverse.Run(a, args...)
		case "determinant":
			args := []interface{}{}
			if cs.has("PD") {
				args = append(args, determinant.PositiveDefinite{Value: true})
			}
			_, err = determinant.Run(a, args...)
		case "gaussJordan":
			n, _ := a.Dims()
			t := a.ElementType()
			x := ad.NullDenseMatrix(t, n, n)
			x.SetIdentity()
			b := ad.NullDenseVector(t, n)
			for i := 0; i < n; i++ {
				b.At(i).SetFloat64(1)
			}
			args := []interface{}{}
			if cs.has("UT") {
				args = append(args, gaussJordan.UpperTriangular{Value: true})
			}
			err = gaussJordan.Run(a, x, b, args...)
		default:
			panic("harness: unknown routine " + cs.Routine)
		}
	})
	switch status {
	case "returned":
		if err != nil {
			label = "error"
		} else {
			label = "result"
		}
	case "panic":
		label = "panic"
		if s, ok := pan.(string); ok && strings.HasPrefix(s, "harness:") {
			label = "HARNESS:" + s
		}
	default:
		label = "TICK"
	}
	return
}

// stager implements the two-stage budget: stage 1 (100x smaller) for every case; a case over
// stage 1 is re-run under the full budget, but only until `confirm` cases of the same key were
// confirmed in this shard — afterwards stage-1 exceedance is reported under the same key as
// "presumed" (the run is then marked capped; this only happens when a violation exists).
type stager struct {
	c         *vf.Ctx
	confirmed map[string]int
}

const confirmPerKey = 1

var sampleN int

func (s *stager) matrix(cs *MCase, rank int64) {
	c := s.c
	n := max(cs.R, cs.C)
	c.Guard("term|"+cs.Routine+"|"+cs.Opts, rank, Envelope{Kind: "matrix", M: cs})
	status, label, ticks := runMatrix(cs, budgetStage1(n))
	c.Eval(1)
	if sampleN++; sampleN == 500 || sampleN == 5000 {
		c.Sample(Envelope{Kind: "matrix", M: cs})
	}
	if status == "TICK" {
		// coarsen the key: drop option tokens without which the stage-1 budget is exceeded too
		toks := []string{}
		if cs.Opts != "" {
			toks = strings.Split(cs.Opts, ",")
		}
		for i := 0; i < len(toks); {
			rest := append(append([]string{}, toks[:i]...), toks[i+1:]...)
			t := *cs
			t.Opts = strings.Join(rest, ",")
			if st, _, _ := runMatrix(&t, budgetStage1(n)); st == "TICK" {
				toks = rest
			} else {
				i++
			}
		}
		key := fmt.Sprintf("TICK|%s|%s|%s", cs.Routine, optName(strings.Join(toks, ",")), cs.Class)
		// a transformed input (negated / scaled / sign-similar): name only the transforms
		// without which the stage-1 budget is kept
		if x := neededTransforms(cs, budgetStage1(n)); x != "" {
			key += "|" + x
		}
		if s.confirmed[key] < confirmPerKey {
			status, label, ticks = runMatrix(cs, budgetFull(n))
			if status == "TICK" {
				s.confirmed[key]++
				c.Violate(key, fmt.Sprintf("%s(%s) on a %dx%d %s input%s does not return within %d loop ticks (ordinary inputs of this size need < 1e4)", cs.Routine, optName(cs.Opts), cs.R, cs.C, cs.Class, cs.transformText(), budgetFull(n)), rank, Envelope{Kind: "matrix", M: cs})
			} else {
				c.Count("slow_but_within_full_budget:"+cs.Routine, 1)
			}
		} else {
			c.Count("over_stage1_budget_presumed_spin:"+key, 1)
			c.Cap("full-budget confirmation skipped after " + fmt.Sprint(confirmPerKey) + " confirmed spin per key (only when a TICK violation exists)")
		}
	}
	if strings.HasPrefix(label, "HARNESS:") {
		c.HarnessError(label)
		return
	}
	c.Outcome("term|" + cs.Routine + "|" + label)
	if status != "TICK" {
		d := 2
		for t := ticks; t >= 100; t /= 10 {
			d++
		}
		c.Count(fmt.Sprintf("matrix_ticks<1e%d", d), 1)
		c.Count("kiloticks:"+cs.Routine, (ticks+500)/1000)
		// debugging knob: C20_DEBUG_SLOW=<file prefix> lists the cases above half the stage-1 budget
		if pre := os.Getenv("C20_DEBUG_SLOW"); pre != "" && ticks > budgetStage1(n)/2 {
			if f, err := os.OpenFile(fmt.Sprintf("%s.%d", pre, os.Getpid()), os.O_APPEND|os.O_CREATE|os.O_WRONLY, 0644); err == nil {
				b, _ := json.Marshal(cs)
				fmt.Fprintf(f, "SLOW %d %s\n", ticks, b)
				f.Close()
			}
		}
		if !trivialInput(cs) {
			c.Nontrivial(1)
		}
	}
}

func optName(o string) string {
	if o == "" {
		return "default"
	}
	return o
}

func trivialInput(cs *MCase) bool {
	// an input is trivial for termination when no iteration can happen: 1x1/0x0 or diagonal
	if cs.R <= 1 || cs.C <= 1 {
		return true
	}
	for i := 0; i < cs.R; i++ {
		for j := 0; j < cs.C; j++ {
			if i != j && (cs.Base[i*cs.C+j] != 0 || (cs.Tiny != nil && cs.Tiny[i*cs.C+j] != 0)) {
				return false
			}
		}
	}
	return cs.Val == ""
}

// ---- which routines run on which matrix -------------------------------------------------

type mplan struct {
	routine string
	opts    []string
}

// plan modes: every routine; the iterative routines only (large lattices); the iterative
// routines with the matrix square roots on symmetric inputs only (added families and transformed
// variants: on an unsymmetric input msqrt/msqrtInv run into their iteration limit, 200 matrix
// inversions, which the plain lattices cover)
const (
	planFull = iota
	planIter
	planLean
)

func planMode(full bool) int {
	if full {
		return planFull
	}
	return planIter
}

func plansFor(sym bool, r, c int, mode int) []mplan {
	var ps []mplan
	if r == c {
		ps = append(ps,
			mplan{"qrAlgorithm", []string{"", "Eps", "U"}},
			mplan{"eigensystem", []string{""}},
			mplan{"hessenberg", []string{""}},
			mplan{"matrixInverse", []string{"", "UT"}},
			mplan{"determinant", []string{""}},
			mplan{"gaussJordan", []string{"", "UT"}},
			mplan{"msqrt", []string{""}},
			mplan{"msqrtInv", []string{""}},
		)
		if sym {
			ps = append(ps,
				mplan{"qrAlgorithm", []string{"Sym", "Sym,Eps", "Sym,U"}},
				mplan{"eigensystem", []string{"Sym", "Sym,QrSym"}},
				mplan{"tridiag", []string{""}},
				mplan{"cholesky", []string{"", "LDL", "LDL,ForcePD"}},
				mplan{"matrixInverse", []string{"PD"}},
				mplan{"determinant", []string{"PD"}},
			)
		}
	}
	if r >= c {
		ps = append(ps,
			mplan{"svd", []string{"", "Eps", "U,V"}},
			mplan{"bidiag", []string{""}},
			mplan{"gramSchmidt", []string{""}},
		)
	}
	if mode != planFull {
		// large lattices: the iterative routines only
		var q []mplan
		for _, p := range ps {
			switch p.routine {
			case "qrAlgorithm", "eigensystem", "svd":
				q = append(q, p)
			case "msqrt", "msqrtInv":
				if mode == planIter || sym {
					q = append(q, p)
				}
			}
		}
		return q
	}
	return ps
}

func squareClass(base []int, n int) string {
	zero := true
	for _, v := range base {
		if v != 0 {
			zero = false
		}
	}
	switch {
	case n == 0:
		return "size-0"
	case n == 1:
		return "size-1"
	case zero:
		return "zero-matrix"
	}
	sp, err := lat.SpectrumOf(lat.CharPoly(base, n))
	if err != nil {
		return "unclassified"
	}
	cl := "distinct-real"
	if sp.NumComplexPairs() > 0 {
		cl = "complex-pair"
	} else if sp.MaxMult() > 1 {
		cl = "repeated-eigenvalue"
	}
	return cl
}

// spdClass is the input class for the matrix square roots, whose admissible inputs are SPD.
func spdClass(base []int, n int) string {
	switch {
	case n == 0:
		return "size-0"
	case lat.IsSPD(base, n):
		return "spd"
	case lat.IsSymmetric(base, n):
		return "symmetric-not-pd"
	}
	return "not-symmetric"
}

func tallClass(base []int, r, c int) string {
	zero := true
	for _, v := range base {
		if v != 0 {
			zero = false
		}
	}
	switch {
	case r == 0 || c == 0:
		return "size-0"
	case zero:
		return "zero-matrix"
	case lat.GramDet(base, r, c) == 0:
		return "rank-deficient"
	}
	return "full-rank"
}

type mlattice struct {
	name string
	r, c int
	E    []int
	sym  bool
	full bool // all routines (small lattices) or the iterative ones only
	skip func([]int) bool
}

func inE3(a []int) bool {
	for _, v := range a {
		if v < -1 || v > 1 {
			return false
		}
	}
	return true
}

func mlattices(thorough bool) []mlattice {
	ls := []mlattice{
		{name: "1x1{-2..2}", r: 1, c: 1, E: lat.E5, full: true},
		{name: "2x2{-2..2}", r: 2, c: 2, E: lat.E5, full: true},
		{name: "3x3{-1,0,1}", r: 3, c: 3, E: lat.E3},
		{name: "2x1{-2..2}", r: 2, c: 1, E: lat.E5, full: true},
		{name: "3x2{-1,0,1}", r: 3, c: 2, E: lat.E3, full: true},
		{name: "4x2{-1,0,1}", r: 4, c: 2, E: lat.E3},
	}
	if thorough {
		ls = append(ls,
			mlattice{name: "3x3sym{-2..2}", r: 3, c: 3, E: lat.E5, sym: true, full: true},
			mlattice{name: "3x2{-2..2}", r: 3, c: 2, E: lat.E5, skip: inE3},
			mlattice{name: "4x4sym{-1,0,1}", r: 4, c: 4, E: lat.E3, sym: true},
			mlattice{name: "4x3{-1,0,1}", r: 4, c: 3, E: lat.E3},
			mlattice{name: "3x3{-2..2}", r: 3, c: 3, E: lat.E5, skip: inE3},
		)
	}
	return ls
}

func (l mlattice) count() int64 {
	if l.sym {
		return lat.Pow(len(l.E), l.r*(l.r+1)/2)
	}
	return lat.Pow(len(l.E), l.r*l.c)
}
func (l mlattice) decode(i int64) []int {
	if l.sym {
		return lat.DecodeSym(i, l.r, l.E)
	}
	return lat.Decode(i, l.r, l.c, l.E)
}

var elems2 = []string{"Float64", "Real64"}

func classFor(base []int, r, c int, routine string) string {
	switch routine {
	case "svd", "bidiag", "gramSchmidt":
		return tallClass(base, r, c)
	case "msqrt", "msqrtInv":
		return spdClass(base, r)
	}
	return squareClass(base, r)
}

// termMatrices enumerates the lattices, the degenerate families and the non-finite family.
func termMatrices(c *vf.Ctx, idx *int64) {
	st := &stager{c: c, confirmed: map[string]int{}}
	// runT runs every admissible routine × option on the input described by the template t
	runT := func(t MCase, mode int, elems []string, forceClass string, rank int64) {
		for _, p := range plansFor(t.symmetric(), t.R, t.C, mode) {
			for _, o := range p.opts {
				for _, e := range elems {
					cl := forceClass
					if cl == "" {
						cl = classFor(t.Base, t.R, t.C, p.routine)
					}
					cs := t
					cs.Routine, cs.Opts, cs.Elem, cs.Class = p.routine, o, e, cl
					st.matrix(&cs, rank)
				}
			}
		}
	}
	runAll := func(base []int, r, cc int, full bool, elems []string, forceClass string, pos int, val string, rank int64) {
		runT(MCase{R: r, C: cc, Base: base, Pos: pos, Val: val}, planMode(full), elems, forceClass, rank)
	}
	// runX runs the transformed variants s·2^k·D·A·D of the template (iterative routines, Float64)
	runX := func(t MCase, xs []xform, forceClass string, rank int64) {
		for k, x := range xs {
			u := t
			u.Negated, u.ScaleExp, u.SignMask = x.neg, x.exp, x.signs
			runT(u, planLean, elems2[:1], forceClass, rank+int64(k)+1)
		}
		c.Count("transformed-variants(negated/scaled/sign-similar)", int64(len(xs)))
	}
	// debugging knob: C20_MATRIX=tiny|composites runs only that family
	switch os.Getenv("C20_MATRIX") {
	case "tiny":
		termTiny(c, idx, runT, runX)
		return
	case "composites":
		termComposites(c, idx, runT, runX)
		return
	}
	// 1. lattices
	for _, l := range mlattices(c.Thorough()) {
		n := l.count()
		var done int64
		for i := int64(0); i < n; i++ {
			*idx++
			if !c.Mine(*idx) {
				continue
			}
			if c.Expired() {
				c.Cap("soft deadline reached in lattice " + l.name)
				break
			}
			base := l.decode(i)
			if l.skip != nil && l.skip(base) {
				continue
			}
			done++
			es := elems2[:1]
			if l.full {
				es = elems2
			}
			runAll(base, l.r, l.c, l.full, es, "", 0, "", lat.Weight(base))
			if xs := l.xforms(base, c.Thorough()); len(xs) > 0 {
				runX(MCase{R: l.r, C: l.c, Base: base}, xs, "", lat.Weight(base))
			}
		}
		c.Count("matrices:"+l.name, done)
	}
	// 2. degenerate families: sizes 0 and 1, nilpotent patterns, Jordan blocks, rank one
	for n := 0; n <= 4; n++ {
		if n <= 1 {
			*idx++
			if c.Mine(*idx) {
				runAll(make([]int, n*n), n, n, true, elems2, "", 0, "", int64(n))
				c.Count("family:size-0/1", 1)
			}
		}
		if n >= 2 {
			np := int64(1) << uint(n*(n-1)/2)
			for i := int64(0); i < np; i++ {
				*idx++
				if !c.Mine(*idx) {
					continue
				}
				base := lat.DecodeStrictUpper(i, n)
				cl := "nilpotent"
				if i == 0 {
					cl = "zero-matrix"
				}
				runAll(base, n, n, true, elems2, cl, 0, "", lat.Weight(base))
				// transposed pattern (strictly lower)
				bt := make([]int, n*n)
				for a := 0; a < n; a++ {
					for b := 0; b < n; b++ {
						bt[a*n+b] = base[b*n+a]
					}
				}
				runAll(bt, n, n, true, elems2, cl, 0, "", lat.Weight(base)+1)
				c.Count("family:nilpotent", 2)
				if i != 0 {
					xs := xformSet(n, true, scalesFor(c.Thorough()), true)
					runX(MCase{R: n, C: n, Base: base}, xs, cl, lat.Weight(base))
					runX(MCase{R: n, C: n, Base: bt}, xs, cl, lat.Weight(base)+1)
				}
			}
			for _, lam := range []int{0, 1, -1, 2} {
				for _, lower := range []bool{false, true} {
					*idx++
					if !c.Mine(*idx) {
						continue
					}
					base := make([]int, n*n)
					for a := 0; a < n; a++ {
						base[a*n+a] = lam
						if a+1 < n {
							if lower {
								base[(a+1)*n+a] = 1
							} else {
								base[a*n+a+1] = 1
							}
						}
					}
					runAll(base, n, n, true, elems2, "jordan-block", 0, "", lat.Weight(base))
					c.Count("family:jordan", 1)
					runX(MCase{R: n, C: n, Base: base}, xformSet(n, true, scalesFor(c.Thorough()), true), "jordan-block", lat.Weight(base))
				}
			}
			// rank one: u·vᵀ with u,v in {-1,0,1}^n, and identity·k
			m := lat.Pow(3, n)
			for ui := int64(1); ui < m; ui++ {
				for vi := int64(1); vi < m; vi++ {
					*idx++
					if !c.Mine(*idx) {
						continue
					}
					u, v := lat.Decode(ui, n, 1, lat.E3), lat.Decode(vi, n, 1, lat.E3)
					base := make([]int, n*n)
					for a := 0; a < n; a++ {
						for b := 0; b < n; b++ {
							base[a*n+b] = u[a] * v[b]
						}
					}
					if n == 4 && !c.Thorough() && (ui%5 != 0 || vi%5 != 0) {
						continue
					}
					runAll(base, n, n, n <= 3, elems2[:1], "rank-one", 0, "", lat.Weight(base))
					c.Count("family:rank-one", 1)
					if n <= 3 || c.Thorough() {
						// u·vᵀ over {-1,0,1} is closed under negation and D·A·D: scalings only
						runX(MCase{R: n, C: n, Base: base}, xformSet(n, false, scalesFor(c.Thorough()), false), "rank-one", lat.Weight(base))
					}
				}
			}
		}
	}
	// 2b. couplings below the rounding level of the other entries; 2c. block compositions
	termTiny(c, idx, runT, runX)
	termComposites(c, idx, runT, runX)
	// 3. one non-finite entry at every position of a few base matrices
	type nb struct {
		name string
		r, c int
		base []int
	}
	var bases []nb
	for n := 1; n <= 3; n++ {
		z := make([]int, n*n)
		id := make([]int, n*n)
		ones := make([]int, n*n)
		gen := make([]int, n*n)
		symg := make([]int, n*n)
		for a := 0; a < n; a++ {
			for b := 0; b < n; b++ {
				ones[a*n+b] = 1
				gen[a*n+b] = 1 + (a*2+b*3)%3
				symg[a*n+b] = 1
				if a == b {
					id[a*n+b] = 1
					gen[a*n+b] += 2 + a
					symg[a*n+b] = n + 1 + a
				}
			}
		}
		bases = append(bases, nb{"zero", n, n, z}, nb{"identity", n, n, id}, nb{"ones", n, n, ones}, nb{"general", n, n, gen}, nb{"spd", n, n, symg})
	}
	bases = append(bases, nb{"tall", 3, 2, []int{2, 1, 1, 3, 1, 1}}, nb{"tall-zero", 3, 2, make([]int, 6)})
	for _, b := range bases {
		for pos := 0; pos < b.r*b.c; pos++ {
			for _, val := range []string{"NaN", "+Inf", "-Inf"} {
				*idx++
				if !c.Mine(*idx) {
					continue
				}
				// symmetric placement for the symmetric routines: the routine list is chosen from
				// the finite base, so the symmetric routines see a (formally) unsymmetric input too
				cl := map[string]string{"NaN": "nan-entry", "+Inf": "inf-entry", "-Inf": "inf-entry"}[val]
				runAll(b.base, b.r, b.c, true, elems2, cl, pos, val, int64(b.r*b.c*100+pos))
				c.Count("family:non-finite-entry", 1)
			}
		}
	}
}
