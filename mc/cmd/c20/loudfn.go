package main

// Loud failure of the container operations that take a FUNCTION argument: r.Hessian(f, x) and
// r.Jacobian(f, x) of every dense and sparse matrix type. (Map, MapSet and Reduce take a single
// container and have no shape precondition.) These are not reached by the generic enumeration of
// the arithmetic operations in loud.go because their arguments are a callback and a magic vector.
//
// Enumerated: every receiver shape (rows, cols) from {0..4}^2, plain and as a view into a
// sentinel-framed parent, filled with the values 5/6 (which never occur in a result), x the
// dimension of x from {0..3} (Jacobian: x the dimension of f(x) from {0..3}) x the callback.
//
//	dense   the call conforms iff the receiver has the shape of the result (Hessian: k x k,
//	        Jacobian: dim f(x) x k). A non-conforming call must panic or return an error and leave
//	        the receiver bit-identical; a conforming call returns the model value.
//	sparse  the library documents "reallocate matrix if dimensions do not match": every call
//	        conforms, the returned matrix AND the receiver must have the shape of the model result
//	        and its values. Where the model value is zero and the shape already matched, the sparse
//	        types keep the old entry of the receiver (they write non-zero derivatives only); that is
//	        a value question (storage independence, C03), counted here and not judged.

import (
	"fmt"
	"strings"

	ad "github.com/pbenner/autodiff"

	"verif/mc/vf"
)

// FCase: one function-argument case (replay artefact).
type FCase struct {
	Op    string `json:"op"` // Hessian, Jacobian
	Elem  string `json:"elem"`
	Store string `json:"storage"` // d / s
	View  bool   `json:"receiver_is_view,omitempty"`
	R     int    `json:"receiver_rows"`
	C     int    `json:"receiver_cols"`
	K     int    `json:"dim_x"`
	P     int    `json:"dim_fx,omitempty"` // Jacobian only
	Fn    string `json:"f"`                // Hessian: quadratic, linear, constant; Jacobian: linear-map, constant-map
}

func fnCoefQ(i, j int) float64 { return float64((i + 2*j) % 3) }     // quadratic form, i <= j
func fnCoefA(i, j int) float64 { return float64((2*i + j + 1) % 3) } // linear map

// model result (row major) and its shape
func (cs *FCase) model() (vals []float64, r, c int) {
	if cs.Op == "Hessian" {
		r, c = cs.K, cs.K
		vals = make([]float64, r*c)
		if cs.Fn == "quadratic" {
			for i := 0; i < r; i++ {
				for j := 0; j < c; j++ {
					switch {
					case i == j:
						vals[i*c+j] = 2 * fnCoefQ(i, i)
					case i < j:
						vals[i*c+j] = fnCoefQ(i, j)
					default:
						vals[i*c+j] = fnCoefQ(j, i)
					}
				}
			}
		}
		return
	}
	r, c = cs.P, cs.K
	vals = make([]float64, r*c)
	if cs.Fn == "linear-map" {
		for i := 0; i < r; i++ {
			for j := 0; j < c; j++ {
				vals[i*c+j] = fnCoefA(i, j)
			}
		}
	}
	return
}

func (cs *FCase) shapeClass() string {
	_, mr, mc := cs.model()
	switch {
	case cs.R == mr && cs.C == mc:
		return "recv-shape-matches"
	case cs.R == mr && cs.C < mc:
		return "recv-rows-match-fewer-cols"
	case cs.R == mr:
		return "recv-rows-match-more-cols"
	case cs.C == mc && cs.R < mr:
		return "recv-cols-match-fewer-rows"
	case cs.C == mc:
		return "recv-cols-match-more-rows"
	}
	return "recv-rows-and-cols-differ"
}

type fres struct {
	what   string
	msg    string
	nonc   bool
	loud   string
	benign string
}

func evalFn(cs *FCase) fres {
	t := etypeOf(cs.Elem)
	data := make([]float64, cs.R*cs.C)
	for i := range data {
		data[i] = float64(5 + i%2)
	}
	recv := mkMat(cs.Store[0], t, data, cs.R, cs.C, cs.View)
	x := ad.NullDenseReal64Vector(cs.K)
	for i := 0; i < cs.K; i++ {
		x.At(i).SetFloat64(float64(i + 1))
	}
	cf := func(v float64) ad.ConstScalar { return ad.ConstFloat64(v) }
	fH := func(x ad.ConstVector) ad.ConstScalar {
		y := ad.NewReal64(0)
		t := ad.NewReal64(0)
		switch cs.Fn {
		case "quadratic":
			for i := 0; i < x.Dim(); i++ {
				for j := i; j < x.Dim(); j++ {
					t.Mul(x.ConstAt(i), x.ConstAt(j))
					t.Mul(t, cf(fnCoefQ(i, j)))
					y.Add(y, t)
				}
			}
		case "linear":
			for i := 0; i < x.Dim(); i++ {
				t.Mul(x.ConstAt(i), cf(float64(i+1)))
				y.Add(y, t)
			}
		case "constant":
			y.SetFloat64(3) // derivative order 0
		default:
			panic("harness: unknown function " + cs.Fn)
		}
		return y
	}
	fJ := func(x ad.ConstVector) ad.ConstVector {
		y := ad.NullDenseReal64Vector(cs.P)
		t := ad.NewReal64(0)
		switch cs.Fn {
		case "linear-map":
			for i := 0; i < cs.P; i++ {
				for j := 0; j < x.Dim(); j++ {
					t.Mul(x.ConstAt(j), cf(fnCoefA(i, j)))
					y.At(i).Add(y.At(i), t)
				}
			}
		case "constant-map":
			for i := 0; i < cs.P; i++ {
				y.At(i).SetFloat64(float64(i + 1))
			}
		default:
			panic("harness: unknown function " + cs.Fn)
		}
		return y
	}
	want, mr, mc := cs.model()
	shapeMatches := cs.R == mr && cs.C == mc
	conform := shapeMatches || cs.Store == "s"
	var ret ad.Matrix
	pan := try(func() {
		var out []any
		if cs.Op == "Hessian" {
			o := callMethod(recv.m, "Hessian", fH, ad.MagicVector(x))
			out = []any{o[0].Interface()}
		} else {
			o := callMethod(recv.m, "Jacobian", fJ, ad.MagicVector(x))
			out = []any{o[0].Interface()}
		}
		if m, ok := out[0].(ad.Matrix); ok {
			ret = m
		}
	})
	if s, ok := pan.(string); ok && strings.HasPrefix(s, "harness:") {
		panic(s)
	}
	if !recv.frameIntact() {
		return fres{what: "outside-view-window-modified", msg: "a value outside the view's window (sentinel frame in the parent) was modified or the parent changed shape", nonc: !conform}
	}
	after, ar, ac, rp := readMat(recv.m)
	if rp != nil {
		return fres{what: "receiver-corrupted", msg: fmt.Sprintf("in-range read of the receiver panics afterwards: %v", rp), nonc: !conform}
	}
	if !conform {
		// dense, wrong shape: must be loud, receiver bit-identical
		if ar != cs.R || ac != cs.C || !same(after, data) {
			how := "and returned silently"
			if pan != nil {
				how = fmt.Sprintf("before it failed with panic: %v", pan)
			}
			return fres{what: "receiver-modified-by-rejected-call", msg: fmt.Sprintf("the non-conforming call changed the receiver from %dx%d %v to %dx%d %v %s", cs.R, cs.C, data, ar, ac, after, how), nonc: true}
		}
		if pan == nil {
			var got []float64
			gr, gc := -1, -1
			if ret != nil {
				got, gr, gc, _ = readMat(ret)
			}
			return fres{what: "no-panic-no-error", msg: fmt.Sprintf("non-conforming call returned silently a %dx%d matrix %v (the result is %dx%d)", gr, gc, got, mr, mc), nonc: true}
		}
		return fres{nonc: true, loud: "panic"}
	}
	if pan != nil {
		return fres{what: "conforming-call-rejected", msg: fmt.Sprintf("conforming call failed: panic=%v", pan)}
	}
	if ret == nil {
		return fres{what: "wrong-shape-result", msg: "conforming call returned nil"}
	}
	got, gr, gc, gp := readMat(ret)
	if gp != nil {
		return fres{what: "receiver-corrupted", msg: fmt.Sprintf("reading the returned matrix panics: %v", gp)}
	}
	if gr != mr || gc != mc || ar != mr || ac != mc {
		return fres{what: "wrong-shape-result", msg: fmt.Sprintf("returned matrix is %dx%d, receiver afterwards %dx%d, the result is %dx%d", gr, gc, ar, ac, mr, mc)}
	}
	stale := false
	for _, o := range [][]float64{got, after} {
		for i := range want {
			if o[i] == want[i] {
				continue
			}
			if cs.Store == "s" && shapeMatches && want[i] == 0 && o[i] == data[i] {
				stale = true
				continue
			}
			return fres{what: "wrong-value", msg: fmt.Sprintf("conforming call returned %v (receiver afterwards %v), model %v", got, after, want)}
		}
	}
	if stale {
		// a conforming call returns the model value whatever the receiver held before
		return fres{what: "stale-receiver-entries", msg: fmt.Sprintf("conforming call on a receiver of matching shape keeps old entries where the result is zero: returned %v (receiver afterwards %v), model %v", got, after, want)}
	}
	return fres{}
}

func evalFnSafe(cs *FCase) (r fres, harness string) {
	if p := try(func() { r = evalFn(cs) }); p != nil {
		if s, ok := p.(string); ok && strings.HasPrefix(s, "harness:") {
			return r, s
		}
		return r, fmt.Sprintf("harness: unexpected panic outside the protected call: %v", p)
	}
	return r, ""
}

func fnKey(cs *FCase, r fres, elem string) string {
	v := "plain"
	if cs.View {
		v = "view"
	}
	return fmt.Sprintf("LOUD|%s(f,x)|recv=%s|%s|elem=%s|%s|%s", cs.Op, map[string]string{"d": "dense", "s": "sparse"}[cs.Store], v, elem, cs.shapeClass(), r.what)
}

func runFn(c *vf.Ctx, cs *FCase, rank int64) {
	r, h := evalFnSafe(cs)
	if h != "" {
		c.HarnessError(h)
		return
	}
	c.Eval(1)
	if sampleN++; sampleN%4001 == 0 {
		c.Sample(Envelope{Kind: "function-argument", F: cs})
	}
	_, mr, mc := cs.model()
	if r.nonc || mr*mc > 0 {
		c.Nontrivial(1)
	}
	if r.what == "" {
		lab := "conforming-ok"
		if r.benign != "" {
			lab = "accepted:" + r.benign
		} else if r.nonc {
			lab = "rejected-by-" + r.loud
		}
		c.Outcome("loud|" + cs.Op + "(f,x)|" + lab)
		return
	}
	c.Outcome("loud|" + cs.Op + "(f,x)|" + r.what)
	elem := cs.Elem
	o := *cs
	o.Elem = "Float64"
	if cs.Elem == "Float64" {
		o.Elem = "Int32"
	}
	if r2, _ := evalFnSafe(&o); r2.what == r.what {
		elem = "any"
	}
	c.Violate(fnKey(cs, r, elem), fmt.Sprintf("%s(f, x) on a %dx%d %s %s receiver (view=%v), dim x=%d, dim f(x)=%d, f=%s: %s", cs.Op, cs.R, cs.C, map[string]string{"d": "dense", "s": "sparse"}[cs.Store], cs.Elem, cs.View, cs.K, cs.P, cs.Fn, r.msg), rank, Envelope{Kind: "function-argument", F: cs})
}

func loudFunctionArgs(c *vf.Ctx, idx *int64) {
	dims := []int{0, 1, 2, 3, 4}
	for _, op := range []string{"Hessian", "Jacobian"} {
		fns := []string{"quadratic", "linear", "constant"}
		ps := []int{0}
		if op == "Jacobian" {
			fns = []string{"linear-map", "constant-map"}
			ps = []int{0, 1, 2, 3}
		}
		for _, fn := range fns {
			for _, st := range []string{"d", "s"} {
				for _, view := range []bool{false, true} {
					for _, k := range []int{0, 1, 2, 3} {
						for _, p := range ps {
							for _, r := range dims {
								for _, cc := range dims {
									for ei, e := range etypes {
										*idx++
										if !c.Mine(*idx) {
											continue
										}
										cs := &FCase{Op: op, Elem: e.name, Store: st, View: view, R: r, C: cc, K: k, P: p, Fn: fn}
										rank := int64((r+cc+k+p)*100 + ei)
										if view {
											rank += 50
										}
										runFn(c, cs, rank)
									}
								}
							}
						}
					}
				}
			}
		}
	}
}
