// C20: every routine terminates and fails loudly on invalid use.
//
//	(1) termination under a deterministic loop-tick budget (overlay-instrumented algorithm/**)
//	    for the matrix routines on the degenerate-heavy lattices and for the optimizers
//	    against adversarial objectives;
//	(2) loud failure: every container operation and algorithm entry point on all shape tuples
//	    from dims {0,1,2,3}, boundary indices, bad permutations and invalid option values,
//	    against a plain reference model.
package main

import (
	"encoding/json"
	"os"
	"time"

	"verif/mc/vf"
)

// Envelope is the replay artefact: exactly one member is set.
type Envelope struct {
	Kind string `json:"kind"`
	M    *MCase `json:"matrix_case,omitempty"`
	O    *OCase `json:"optimizer_case,omitempty"`
	S    *SCase `json:"stall_case,omitempty"`
	C    *CCase `json:"constraint_case,omitempty"`
	F    *FCase `json:"function_argument_case,omitempty"`
	L    *LCase `json:"loud_case,omitempty"`
	A    *ACase `json:"algorithm_case,omitempty"`
	B    string `json:"optimizer_bad_argument,omitempty"`
}

func run(c *vf.Ctx) {
	var idx int64
	part := os.Getenv("C20_PART")
	if part == "" || part == "opt" {
		termOptimizers(c, &idx)
	}
	if part == "" || part == "stall" {
		termStalls(c, &idx)
	}
	if part == "" || part == "con" {
		termConstraints(c, &idx)
	}
	if part == "" || part == "matrix" {
		termMatrices(c, &idx)
	}
	if part == "" || part == "loud" {
		loudAll(c, &idx)
		loudAlgorithms(c, &idx)
	}
	if part == "" || part == "loud" || part == "fn" {
		loudFunctionArgs(c, &idx)
	}
}

func main() {
	vf.Main(vf.Spec{
		ID:    "C20",
		Level: "exploration",
		Rule: "termination: every matrix of the lattices (1x1,2x2 over {-2..2}; 3x3, 3x2, 4x2 over {-1,0,1}; thorough adds 3x3 {-2..2}, symmetric 4x4, 4x3) plus all nilpotent {0,1} patterns, Jordan blocks, rank-one matrices, sizes 0/1 and one NaN/±Inf entry at every position, through every routine × termination-relevant option; " +
			"sign/scale variants s·2^k·D·A·D (exact in float64; iterative routines, msqrt/msqrtInv on symmetric inputs only): −A, ±2^±40·A (thorough also 2^±100), ±D·A·D for every D=diag(±1) of the nilpotent and Jordan families; the scalings of the rank-one matrices (n<=3), of the 2x2 and 3x2 lattices and of the symmetric 3x3 lattice matrices (thorough: of all 3x3{-1,0,1} and 4x2 matrices and, 2^±40 only, of the symmetric 3x3{-2..2} matrices) — the lattices themselves are closed under A→−A and A→D·A·D; " +
			"couplings below the rounding level, τ=2^-56 (thorough also 2^-52, 2^-64), at least one ±τ entry: all 2x2 over {0,±1,±2,±τ} with every scaling; symmetric 3x3 with diagonal over {-1,0,1}, off-diagonal over {0,±τ,1} (thorough, τ=2^-56: {-2..2}, {0,±τ,±1}); 3x3 with diagonal over {-1,0,1}, strict lower triangle over {0,±τ}, strict upper triangle all 0 or all 1 (thorough, τ=2^-56: every {0,1} pattern); the 3x3 ones also negated (thorough also ±2^±40); " +
			"block compositions diag(B1..Bk) of total size 4 (thorough also 5 and 6 with at most 3 blocks) for every ordered choice of blocks, not all 1x1, from the catalogue (1x1: 0,1,-1,2; 2x2: both rotations, swap, J2(0), J2(1) upper and lower, ones, nilpotent rank-one, [1 -1;1 1]; 3x3: both 3-cycles, the transpositions, C3·diag(1,1,-1), C3·diag(2,1,1), J3(0), J3(1) upper and lower, ones; thorough 4x4: both 4-cycles, signed 4-cycle, two swaps, J4(0), J4(1), ones) × coupling of all off-diagonal blocks (none; all ones or a single entry next to the diagonal, above or below the diagonal), also negated (thorough: ±2^±40 and, for size 4, ±D·A·D); " +
			"optimizers × start point × objective poison (NaN/±Inf value or value+gradient, error) from call k=1..5; non-trivial = input on which the routine can iterate (not 1x1/diagonal) resp. the poisoned answer was actually consumed. " +
			"stalling configurations: newton.RunRoot/RunCrit/RunMin (× Hessian modification), bfgs, rprop, gradientDescent × objective (quadratic with exactly attained minimum, quartic with singular Hessian at the minimum, constant; roots of x-1, x²-1, x²-2, 0, circle∩line) × start points (7; thorough 11) × constraint (none, x0<=b, x0>=b for b in {0,1,2}, 4 boxes; thorough more) × epsilon (default, 1e-30, 0 with MaxIterations 50); non-trivial = feasible start and at least one iteration. " +
			"adversarial user constraints: lineSearch.Run (phi(a)=(a-c)^2, c in {1,2,0.5,3,1/16}, Alpha1 1 and 4), bfgs, rprop, newton.RunRoot/RunCrit/RunMin (x Hessian modification) x objective (sum (x_i-1)^2; (x_0-2)^2+10 sum x_i^2; roots x_i^2-1; (x_0-2, x_i)) x 5 start points (thorough 10) x constraint callback (false everywhere; true for the first k-1 calls and false from call k=2..5 on; true only at the start point resp. step length 0; true iff x_0<=lo or x_0>=hi for 5 (thorough 10) gaps (lo,hi), i.e. a feasible set that is not convex along the search line); non-trivial = the callback answered 'inadmissible' at least once. " +
			"loud failure: every operation × storage (dense/sparse) × 9 element types × every shape tuple from dims {0,1,2,3} / index from {-1,0,dim-1,dim,dim+1} / permutation array; non-trivial = the call is non-conforming (must fail) or conforming with a non-empty result (value compared with the model); " +
			"operations with a function argument: Hessian(f, x) and Jacobian(f, x) of every dense and sparse matrix type x 9 element types x plain and sentinel-framed view receivers x every receiver shape from dims {0..4}^2 x argument dimension 0..3 (Jacobian: x result dimension 0..3) x f (quadratic form / linear map with small integer coefficients, constant, linear form), receivers filled with a sentinel pattern; dense: a non-conforming call must panic or return an error and leave the receiver bit-identical; sparse (documented to reallocate the receiver): the returned matrix and the receiver must have the shape and values of the model; a conforming call must return the model value",
		Assume: []string{
			"step budget 2e5·(n+1)^3 loop ticks per call (two-stage: a 100x smaller first stage, exceedance is re-run under the full budget); 1e5 objective evaluations; 1e5 evaluations of the user constraint callback (first stage 2000)",
			"user constraint callbacks may be history dependent (an environment like the objective); the verdict is termination only — which point is returned under an inconsistent callback is not judged",
			"termination verdicts accept any of: result, error, panic",
			"Epsilon{0} means 'no tolerance stop' (the library's own demo programs use it with MaxIterations{N}): enumerated with a finite MaxIterations only; not for gradientDescent, which has no MaxIterations option",
			"loud failure: a panic or an error return both count as loud; after a rejected call all in-range reads of the receiver must still succeed",
			"test data are small integers so that every element type (int8..float64, Real) represents all intermediate values exactly",
		},
		SoftLimit: map[string]time.Duration{"quick": 100 * time.Second, "thorough": 13 * time.Minute},
		Run:       run,
		Replay: func(c *vf.Ctx, raw json.RawMessage) {
			var e Envelope
			if err := json.Unmarshal(raw, &e); err != nil {
				c.HarnessError(err.Error())
				return
			}
			st := &stager{c: c, confirmed: map[string]int{}}
			switch {
			case e.M != nil:
				st.matrix(e.M, 0)
			case e.O != nil:
				st.opt(e.O, 0)
			case e.S != nil:
				st.stall(e.S, 0)
			case e.C != nil:
				st.con(e.C, 0)
			case e.F != nil:
				runFn(c, e.F, 0)
			case e.L != nil:
				runLoud(c, e.L, 0)
			case e.A != nil:
				runAlg(c, e.A, 0)
			case e.B != "":
				runOptBad(c, e.B)
			default:
				c.HarnessError("empty replay artefact")
			}
		},
	})
}
