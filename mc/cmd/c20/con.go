package main

// Termination of the line search and of the optimizers against an adversarial user CONSTRAINT
// callback. The constraint is an environment exactly like the objective: the routines call it
// inside their step-reduction loops (`for !constraints(alpha) { alpha *= 0.5 }`,
// `for { x2 = x1 - t; if ok(x2) break; t *= 0.9 }`), and these loops end only because "step
// length -> 0 leads back to the current iterate, which is admissible". The answers below break
// that assumption in every way a callback can:
//
//	never        false for every argument (also for the start point)
//	from-call-k  true for the first k-1 calls, false from call k on (k = 2..5)
//	start-only   true exactly at the start point (line search: step length 0), false elsewhere
//	nonconvex    true iff x[0] <= lo or x[0] >= hi (line search: the step length) — a feasible set
//	             that is not convex along the search line, the minimiser lies in the gap or beyond
//
// Every run must return (result, error or panic) within the loop-tick budget, the objective
// evaluation budget AND a cap on the number of constraint evaluations.

import (
	"fmt"

	ad "github.com/pbenner/autodiff"
	"github.com/pbenner/autodiff/algorithm/bfgs"
	"github.com/pbenner/autodiff/algorithm/lineSearch"
	"github.com/pbenner/autodiff/algorithm/newton"
	"github.com/pbenner/autodiff/algorithm/rprop"

	"verif/mc/vf"
)

// CCase: one constraint-adversary case (replay artefact).
type CCase struct {
	Routine   string    `json:"routine"`
	Opts      string    `json:"options"`   // newton: Hessian modification; lineSearch: "" or "alpha1=4"
	Objective string    `json:"objective"` // "quad" sum (x_i-1)^2; "aniso" (x_0-2)^2+10 sum_{i>0} x_i^2; roots: "sq-1" x_i^2-1, "lin2" (x_0-2, x_i)
	X0        []float64 `json:"x0"`        // lineSearch: X0[0] is the minimiser c of phi(alpha)=(alpha-c)^2
	Mode      string    `json:"constraint"`
	K         int       `json:"from_call,omitempty"`
	Lo        float64   `json:"lo,omitempty"`
	Hi        float64   `json:"hi,omitempty"`
}

func (cs *CCase) class() string {
	if cs.Mode == "from-call-k" {
		return "constraint-false-from-call-k"
	}
	return "constraint-" + cs.Mode
}

const conFull, conStage1 = 5000000, 2000 // full cap: a 0.9-backtracking loop that walks a boundary at exactly 0 down through every binade to the denormals needs ~7e5 evaluations (measured); anything beyond 5e6 is a spin

// which budget ended the last runCon
var conExceeded string

func runCon(cs *CCase, evalBudget, conBudget, tickBudget int64) (status, label string, calls, ccalls, cfalse int64) {
	conExceeded = ""
	begin := func() {
		calls++
		if calls > evalBudget {
			conExceeded = "objective-evaluation-cap"
			panic(evalBudgetExceeded{evalBudget})
		}
	}
	// the constraint on a point given as plain numbers (line search: one number, the step length)
	start := cs.X0
	if cs.Routine == "lineSearch" {
		start = []float64{0}
	}
	answer := func(x []float64) bool {
		ccalls++
		if ccalls > conBudget {
			conExceeded = "constraint-evaluation-cap"
			panic(evalBudgetExceeded{conBudget})
		}
		ok := true
		switch cs.Mode {
		case "never":
			ok = false
		case "from-call-k":
			ok = ccalls < int64(cs.K)
		case "start-only":
			for i := range x {
				if x[i] != start[i] {
					ok = false
				}
			}
		case "nonconvex":
			ok = x[0] <= cs.Lo || x[0] >= cs.Hi
		default:
			panic("harness: unknown constraint mode " + cs.Mode)
		}
		if !ok {
			cfalse++
		}
		return ok
	}
	feasV := func(x ad.Vector) bool {
		v := make([]float64, x.Dim())
		for i := range v {
			v[i] = x.At(i).GetFloat64()
		}
		return answer(v)
	}
	feasS := func(a ad.ConstScalar) bool { return answer([]float64{a.GetFloat64()}) }
	c := func(v float64) ad.ConstScalar { return ad.ConstFloat64(v) }
	fv := func(x ad.ConstVector) (ad.MagicScalar, error) {
		begin()
		y := ad.NewReal64(0)
		t := ad.NewReal64(0)
		for i := 0; i < x.Dim(); i++ {
			switch {
			case cs.Objective == "quad":
				t.Sub(x.ConstAt(i), c(1))
				t.Mul(t, t)
			case cs.Objective == "aniso" && i == 0:
				t.Sub(x.ConstAt(i), c(2))
				t.Mul(t, t)
			case cs.Objective == "aniso":
				t.Mul(x.ConstAt(i), x.ConstAt(i))
				t.Mul(t, c(10))
			default:
				panic("harness: unknown scalar objective " + cs.Objective)
			}
			y.Add(y, t)
		}
		return y, nil
	}
	fs := func(a ad.ConstScalar) (ad.MagicScalar, error) {
		begin()
		y := ad.NewReal64(0)
		y.Sub(a, c(cs.X0[0]))
		y.Mul(y, y)
		return y, nil
	}
	fr := func(x ad.ConstVector) (ad.MagicVector, error) {
		begin()
		r := ad.NullDenseReal64Vector(x.Dim())
		for i := 0; i < x.Dim(); i++ {
			switch {
			case cs.Objective == "sq-1":
				r.At(i).Mul(x.ConstAt(i), x.ConstAt(i))
				r.At(i).Sub(r.At(i), c(1))
			case cs.Objective == "lin2" && i == 0:
				r.At(i).Sub(x.ConstAt(i), c(2))
			case cs.Objective == "lin2":
				r.At(i).Add(x.ConstAt(i), c(0))
			default:
				panic("harness: unknown vector objective " + cs.Objective)
			}
		}
		return r, nil
	}
	x0 := func() ad.Vector { return ad.NewDenseFloat64Vector(append([]float64{}, cs.X0...)) }
	var err error
	status, pan, _ := guarded(tickBudget, func() {
		switch cs.Routine {
		case "lineSearch":
			args := []interface{}{lineSearch.Constraints{Value: feasS}}
			if cs.Opts == "alpha1=4" {
				args = append(args, lineSearch.Parameters{Alpha1: 4, MaxEval: 20})
			}
			_, err = lineSearch.Run(fs, ad.Float64Type, args...)
		case "bfgs":
			_, err = bfgs.Run(fv, x0(), bfgs.Constraints{Value: feasV})
		case "rprop":
			_, err = rprop.Run(fv, x0(), 0.1, []float64{1.2, 0.5}, rprop.Constraints{Value: feasV})
		case "newton.RunRoot":
			_, err = newton.RunRoot(fr, x0(), newton.Constraints{Value: feasV})
		case "newton.RunCrit":
			_, err = newton.RunCrit(fv, x0(), newton.Constraints{Value: feasV}, newton.HessianModification{Value: cs.Opts})
		case "newton.RunMin":
			_, err = newton.RunMin(fv, x0(), newton.Constraints{Value: feasV}, newton.HessianModification{Value: cs.Opts})
		default:
			panic("harness: unknown routine " + cs.Routine)
		}
	})
	switch status {
	case "returned":
		label = "result"
		if err != nil {
			label = "error"
		}
	case "panic":
		label = "panic"
		if s, ok := pan.(string); ok && len(s) > 8 && s[:8] == "harness:" {
			label = "HARNESS:" + s
		}
	default:
		label = "TICK"
		if conExceeded == "" {
			conExceeded = "loop-ticks"
		}
	}
	return
}

func (s *stager) con(cs *CCase, rank int64) {
	c := s.c
	d := len(cs.X0)
	env := Envelope{Kind: "constraint", C: cs}
	c.Guard("con|"+cs.Routine, rank, env)
	status, label, calls, ccalls, cfalse := runCon(cs, evalStage1, conStage1, budgetFull(d))
	c.Eval(1)
	if status == "TICK" {
		key := fmt.Sprintf("TICK|%s|%s|%s", cs.Routine, cs.class(), conExceeded) // options are in the artefact
		if s.confirmed[key] < stallConfirmPerKey {
			status, label, calls, ccalls, cfalse = runCon(cs, evalFull, conFull, budgetFull(d))
			if status == "TICK" {
				key = fmt.Sprintf("TICK|%s|%s|%s", cs.Routine, cs.class(), conExceeded)
				s.confirmed[key]++
				c.Violate(key, fmt.Sprintf("%s(%s) does not return within %d objective evaluations / %d constraint evaluations / %d loop ticks (%s after %d objective and %d constraint evaluations): objective %s, x0=%v, user constraint %s (k=%d, feasible iff x<=%g or x>=%g)", cs.Routine, optName(cs.Opts), evalFull, conFull, budgetFull(d), conExceeded, calls, ccalls, cs.Objective, cs.X0, cs.Mode, cs.K, cs.Lo, cs.Hi), rank, env)
			} else {
				c.Count("slow_but_within_full_budget", 1)
			}
		} else {
			c.Count("over_stage1_budget_presumed_spin:"+key, 1)
			c.Cap("full-budget confirmation skipped after " + fmt.Sprint(stallConfirmPerKey) + " confirmed spins per key (only when a TICK violation exists)")
		}
	}
	if len(label) > 8 && label[:8] == "HARNESS:" {
		c.HarnessError(label)
		return
	}
	c.Outcome("con|" + cs.Routine + "|" + cs.class() + "|" + label)
	if status != "TICK" {
		dd := 0
		for t := ccalls; t >= 10; t /= 10 {
			dd++
		}
		c.Count(fmt.Sprintf("constraint_calls<1e%d", dd+1), 1)
		// non-trivial: the routine was actually told "inadmissible" at least once
		if cfalse >= 1 {
			c.Nontrivial(1)
		}
	}
}

type gap struct{ lo, hi float64 }

func termConstraints(c *vf.Ctx, idx *int64) {
	st := &stager{c: c, confirmed: map[string]int{}}
	type rt struct {
		name   string
		opts   []string
		objs   []string
		starts [][]float64
	}
	starts := [][]float64{{0}, {4}, {0, 1}, {4, 1}, {0.5, 0.25}}
	gaps := []gap{{0.1, 3.9}, {0.5, 1.5}, {0, 1}, {1, 3}, {0.5, 0.75}}
	if c.Thorough() {
		starts = append(starts, []float64{-2}, []float64{1}, []float64{0, 3}, []float64{4, -1, 1}, []float64{0, 1, 1})
		gaps = append(gaps, gap{0.1, 0.9}, gap{0, 4}, gap{2, 2.5}, gap{-1, 0.25}, gap{0.001, 1e6})
	}
	hm := []string{"None", "LDL", "Eigenvalue"}
	sc := []string{"quad", "aniso"}
	routines := []rt{
		// line search: X0[0] is the minimiser of phi
		{"lineSearch", []string{"", "alpha1=4"}, []string{"quad"}, [][]float64{{1}, {2}, {0.5}, {3}, {0.0625}}},
		{"bfgs", []string{""}, sc, starts},
		{"rprop", []string{""}, sc, starts},
		{"newton.RunRoot", []string{""}, []string{"sq-1", "lin2"}, starts},
		{"newton.RunCrit", hm, sc, starts},
		{"newton.RunMin", hm, sc, starts},
	}
	for _, r := range routines {
		for _, o := range r.opts {
			for _, ob := range r.objs {
				for _, x0 := range r.starts {
					var cases []*CCase
					mk := func(mode string, k int, g gap) {
						cases = append(cases, &CCase{Routine: r.name, Opts: o, Objective: ob, X0: x0, Mode: mode, K: k, Lo: g.lo, Hi: g.hi})
					}
					mk("never", 0, gap{})
					for k := 2; k <= 5; k++ {
						mk("from-call-k", k, gap{})
					}
					mk("start-only", 0, gap{})
					for _, g := range gaps {
						mk("nonconvex", 0, g)
					}
					for _, cs := range cases {
						*idx++
						if !c.Mine(*idx) {
							continue
						}
						st.con(cs, int64(len(x0)*100+cs.K))
					}
				}
			}
		}
	}
}
