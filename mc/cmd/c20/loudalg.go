package main

// Loud failure of the algorithm entry points: every input shape from dims {0,1,2,3}²,
// invalid option values, and InSitu buffers of the wrong size.

import (
	"fmt"
	"reflect"
	"strings"

	ad "github.com/pbenner/autodiff"
	"github.com/pbenner/autodiff/algorithm/backSubstitution"
	"github.com/pbenner/autodiff/algorithm/bfgs"
	"github.com/pbenner/autodiff/algorithm/cholesky"
	"github.com/pbenner/autodiff/algorithm/determinant"
	"github.com/pbenner/autodiff/algorithm/eigensystem"
	"github.com/pbenner/autodiff/algorithm/gaussJordan"
	"github.com/pbenner/autodiff/algorithm/gradientDescent"
	"github.com/pbenner/autodiff/algorithm/gramSchmidt"
	"github.com/pbenner/autodiff/algorithm/hessenbergReduction"
	"github.com/pbenner/autodiff/algorithm/householderBidiagonalization"
	"github.com/pbenner/autodiff/algorithm/householderTridiagonalization"
	"github.com/pbenner/autodiff/algorithm/matrixInverse"
	"github.com/pbenner/autodiff/algorithm/msqrt"
	"github.com/pbenner/autodiff/algorithm/msqrtInv"
	"github.com/pbenner/autodiff/algorithm/newton"
	"github.com/pbenner/autodiff/algorithm/qrAlgorithm"
	"github.com/pbenner/autodiff/algorithm/rprop"
	"github.com/pbenner/autodiff/algorithm/svd"

	"verif/mc/vf"
)

// ACase: one algorithm entry-point case (replay artefact).
type ACase struct {
	Routine string `json:"routine"`
	Variant string `json:"variant"` // "shape", "option:<what>", "insitu:<field><+1|-1>"
	Elem    string `json:"elem"`
	Dims    []int  `json:"dims"`
}

// spd-like test data: ones with a dominant diagonal, cut to shape
func algMatrix(e string, r, c int) ad.Matrix {
	v := make([]float64, r*c)
	for i := 0; i < r; i++ {
		for j := 0; j < c; j++ {
			v[i*c+j] = 1
			if i == j {
				v[i*c+j] = float64(4 + i)
			}
		}
	}
	if e == "Real64" {
		return ad.NewDenseReal64Matrix(v, r, c)
	}
	return ad.NewDenseFloat64Matrix(v, r, c)
}
func algVector(e string, n int) ad.Vector {
	v := make([]float64, n)
	for i := range v {
		v[i] = float64(1 + i)
	}
	if e == "Real64" {
		return ad.NewDenseReal64Vector(v)
	}
	return ad.NewDenseFloat64Vector(v)
}

type shape struct{ r, c int }

func shapeOf(m ad.ConstMatrix) shape {
	if m == nil || isNilIface(m) {
		return shape{-1, -1}
	}
	r, c := m.Dims()
	return shape{r, c}
}

func isNilIface(x any) bool {
	if x == nil {
		return true
	}
	v := reflect.ValueOf(x)
	switch v.Kind() {
	case reflect.Ptr, reflect.Map, reflect.Interface, reflect.Func:
		return v.IsNil()
	}
	return false
}

// aresult: what the entry point did
type aresult struct {
	err    error
	shapes []shape // shapes of the returned matrices (-1,-1 for nil), vectors as n×1
}

func vshape(v ad.ConstVector) shape {
	if v == nil || isNilIface(v) {
		return shape{-1, -1}
	}
	return shape{v.Dim(), 1}
}

// callAlg runs the entry point; opts are extra optional arguments.
func callAlg(routine string, e string, d []int, opts []interface{}) aresult {
	t := elemTypeOf(e)
	_ = t
	switch routine {
	case "cholesky", "cholesky(LDL)", "cholesky(LDL,ForcePD)":
		args := []interface{}{}
		if routine != "cholesky" {
			args = append(args, cholesky.LDL{Value: true})
		}
		if routine == "cholesky(LDL,ForcePD)" {
			args = append(args, cholesky.ForcePD{Value: true})
		}
		L, D, err := cholesky.Run(algMatrix(e, d[0], d[1]), append(args, opts...)...)
		if routine == "cholesky" {
			return aresult{err, []shape{shapeOf(L)}}
		}
		return aresult{err, []shape{shapeOf(L), shapeOf(D)}}
	case "gramSchmidt":
		Q, R, err := gramSchmidt.Run(algMatrix(e, d[0], d[1]), opts...)
		return aresult{err, []shape{shapeOf(Q), shapeOf(R)}}
	case "hessenberg":
		H, U, err := hessenbergReduction.Run(algMatrix(e, d[0], d[1]), append([]interface{}{hessenbergReduction.ComputeU{Value: true}}, opts...)...)
		return aresult{err, []shape{shapeOf(H), shapeOf(U)}}
	case "bidiag":
		B, U, V, err := householderBidiagonalization.Run(algMatrix(e, d[0], d[1]), append([]interface{}{householderBidiagonalization.ComputeU{Value: true}, householderBidiagonalization.ComputeV{Value: true}}, opts...)...)
		return aresult{err, []shape{shapeOf(B), shapeOf(U), shapeOf(V)}}
	case "tridiag":
		T, U, err := householderTridiagonalization.Run(algMatrix(e, d[0], d[1]), append([]interface{}{householderTridiagonalization.ComputeU{Value: true}}, opts...)...)
		return aresult{err, []shape{shapeOf(T), shapeOf(U)}}
	case "qrAlgorithm", "qrAlgorithm(Sym)":
		args := []interface{}{qrAlgorithm.ComputeU{Value: true}}
		if routine == "qrAlgorithm(Sym)" {
			args = append(args, qrAlgorithm.Symmetric{Value: true})
		}
		T, U, err := qrAlgorithm.Run(algMatrix(e, d[0], d[1]), append(args, opts...)...)
		return aresult{err, []shape{shapeOf(T), shapeOf(U)}}
	case "eigensystem", "eigensystem(Sym)":
		args := []interface{}{}
		if routine == "eigensystem(Sym)" {
			args = append(args, eigensystem.Symmetric{Value: true})
		}
		ev, V, err := eigensystem.Run(algMatrix(e, d[0], d[1]), append(args, opts...)...)
		return aresult{err, []shape{vshape(ev), shapeOf(V)}}
	case "svd":
		S, U, V, err := svd.Run(algMatrix(e, d[0], d[1]), append([]interface{}{svd.ComputeU{Value: true}, svd.ComputeV{Value: true}}, opts...)...)
		return aresult{err, []shape{shapeOf(S), shapeOf(U), shapeOf(V)}}
	case "msqrt":
		X, err := msqrt.Run(algMatrix(e, d[0], d[1]), opts...)
		return aresult{err, []shape{shapeOf(X)}}
	case "msqrtInv":
		X, err := msqrtInv.Run(algMatrix(e, d[0], d[1]), opts...)
		return aresult{err, []shape{shapeOf(X)}}
	case "matrixInverse", "matrixInverse(PD)", "matrixInverse(UT)":
		args := []interface{}{}
		if routine == "matrixInverse(PD)" {
			args = append(args, matrixInverse.PositiveDefinite{Value: true})
		}
		if routine == "matrixInverse(UT)" {
			args = append(args, matrixInverse.UpperTriangular{Value: true})
		}
		X, err := matrixInverse.Run(algMatrix(e, d[0], d[1]), append(args, opts...)...)
		return aresult{err, []shape{shapeOf(X)}}
	case "determinant", "determinant(PD)":
		args := []interface{}{}
		if routine == "determinant(PD)" {
			args = append(args, determinant.PositiveDefinite{Value: true})
		}
		s, err := determinant.Run(algMatrix(e, d[0], d[1]), append(args, opts...)...)
		sh := shape{1, 1}
		if s == nil || isNilIface(s) {
			sh = shape{-1, -1}
		}
		return aresult{err, []shape{sh}}
	case "gaussJordan":
		// dims: a (d0×d1), x (d2×d3), b (d4)
		a, x, b := algMatrix(e, d[0], d[1]), algMatrix(e, d[2], d[3]), algVector(e, d[4])
		err := gaussJordan.Run(a, x, b, opts...)
		return aresult{err, []shape{shapeOf(x), vshape(b)}}
	case "backSubstitution":
		// dims: A (d0×d1), b (d2)
		A := algMatrix(e, d[0], d[1])
		x, err := backSubstitution.Run(A, algVector(e, d[2]), opts...)
		return aresult{err, []shape{vshape(x)}}
	}
	panic("harness: unknown routine " + routine)
}

func elemTypeOf(e string) ad.ScalarType {
	if e == "Real64" {
		return ad.Real64Type
	}
	return ad.Float64Type
}

// expected result shapes for an admissible shape
func algExpected(routine string, d []int) (admissible bool, shapes []shape) {
	r, c := d[0], d[1]
	sq := r == c && r >= 1
	switch routine {
	case "cholesky":
		return sq, []shape{{r, r}}
	case "cholesky(LDL)", "cholesky(LDL,ForcePD)":
		return sq, []shape{{r, r}, {r, r}}
	case "gramSchmidt":
		return r >= c && c >= 1, []shape{{r, c}, {-2, c}} // R: any number of rows >= c
	case "hessenberg", "tridiag", "qrAlgorithm", "qrAlgorithm(Sym)":
		return sq, []shape{{r, r}, {r, r}}
	case "bidiag", "svd":
		return r >= c && c >= 1, []shape{{r, c}, {r, r}, {c, c}}
	case "eigensystem", "eigensystem(Sym)":
		return sq, []shape{{r, 1}, {r, r}}
	case "msqrt", "msqrtInv", "matrixInverse", "matrixInverse(PD)", "matrixInverse(UT)":
		return sq, []shape{{r, r}}
	case "determinant", "determinant(PD)":
		return sq, []shape{{1, 1}}
	case "gaussJordan":
		ok := sq && d[2] == r && d[3] == r && d[4] == r
		return ok, []shape{{r, r}, {r, 1}}
	case "backSubstitution":
		return sq && d[2] == r, []shape{{r, 1}}
	}
	panic("harness: unknown routine " + routine)
}

func shapesMatch(got, want []shape) bool {
	if len(got) != len(want) {
		return false
	}
	for i := range got {
		if want[i].r == -2 {
			if got[i].c != want[i].c || got[i].r < want[i].c {
				return false
			}
			continue
		}
		if got[i] != want[i] {
			return false
		}
	}
	return true
}

func hasZero(d []int) bool {
	for _, x := range d {
		if x == 0 {
			return true
		}
	}
	return false
}

var algRoutines = []string{"cholesky", "cholesky(LDL)", "cholesky(LDL,ForcePD)", "gramSchmidt", "hessenberg", "bidiag", "tridiag", "qrAlgorithm", "qrAlgorithm(Sym)",
	"eigensystem", "eigensystem(Sym)", "svd", "msqrt", "msqrtInv", "matrixInverse", "matrixInverse(PD)", "matrixInverse(UT)", "determinant", "determinant(PD)", "gaussJordan", "backSubstitution"}

// invalid option values per routine: name -> option list
func badOptions(routine string, n int, e string) map[string][]interface{} {
	t := elemTypeOf(e)
	type unknown struct{ X int }
	m := map[string][]interface{}{"unknown-option-type": {unknown{1}}}
	big := func() ad.Matrix { return ad.NullDenseMatrix(t, n+1, n+1) }
	small := func() ad.Matrix { return ad.NullDenseMatrix(t, max(n-1, 0), max(n-1, 0)) }
	bigv := func() ad.Vector { return ad.NullDenseVector(t, n+1) }
	smallv := func() ad.Vector { return ad.NullDenseVector(t, max(n-1, 0)) }
	switch {
	case strings.HasPrefix(routine, "cholesky"):
		m["insitu-by-value"] = []interface{}{cholesky.InSitu{}}
		m["insitu:L+1"] = []interface{}{&cholesky.InSitu{L: big()}}
		m["insitu:L-1"] = []interface{}{&cholesky.InSitu{L: small()}}
		if routine != "cholesky" {
			m["insitu:D+1"] = []interface{}{&cholesky.InSitu{D: big()}}
			m["insitu:D-1"] = []interface{}{&cholesky.InSitu{D: small()}}
		}
	case routine == "gramSchmidt":
		m["insitu:Q+1"] = []interface{}{gramSchmidt.InSitu{Q: big(), R: ad.NullDenseMatrix(t, n, n)}}
		m["insitu:R-1"] = []interface{}{gramSchmidt.InSitu{Q: ad.NullDenseMatrix(t, n, n), R: small()}}
	case routine == "hessenberg":
		m["insitu-by-value"] = []interface{}{hessenbergReduction.InSitu{}}
		m["insitu:H+1"] = []interface{}{&hessenbergReduction.InSitu{H: big()}}
		m["insitu:H-1"] = []interface{}{&hessenbergReduction.InSitu{H: small()}}
		m["insitu:U+1"] = []interface{}{&hessenbergReduction.InSitu{U: big()}}
		m["insitu:U-1"] = []interface{}{&hessenbergReduction.InSitu{U: small()}}
		m["insitu:Nu-1"] = []interface{}{&hessenbergReduction.InSitu{Nu: smallv()}}
		m["insitu:X+1"] = []interface{}{&hessenbergReduction.InSitu{X: bigv()}}
	case routine == "bidiag":
		m["insitu-by-value"] = []interface{}{householderBidiagonalization.InSitu{}}
		m["negative-epsilon"] = []interface{}{householderBidiagonalization.Epsilon{Value: -1}}
		m["insitu:A+1"] = []interface{}{&householderBidiagonalization.InSitu{A: big()}}
		m["insitu:U+1"] = []interface{}{&householderBidiagonalization.InSitu{U: big()}}
		m["insitu:U-1"] = []interface{}{&householderBidiagonalization.InSitu{U: small()}}
		m["insitu:V+1"] = []interface{}{&householderBidiagonalization.InSitu{V: big()}}
		m["insitu:V-1"] = []interface{}{&householderBidiagonalization.InSitu{V: small()}}
	case routine == "tridiag":
		m["insitu-by-value"] = []interface{}{householderTridiagonalization.InSitu{}}
		m["negative-epsilon"] = []interface{}{householderTridiagonalization.Epsilon{Value: -1}}
		m["insitu:A+1"] = []interface{}{&householderTridiagonalization.InSitu{A: big()}}
		m["insitu:U+1"] = []interface{}{&householderTridiagonalization.InSitu{U: big()}}
		m["insitu:U-1"] = []interface{}{&householderTridiagonalization.InSitu{U: small()}}
	case strings.HasPrefix(routine, "qrAlgorithm"):
		m["insitu-by-value"] = []interface{}{qrAlgorithm.InSitu{}}
		m["negative-epsilon"] = []interface{}{qrAlgorithm.Epsilon{Value: -1}}
		m["insitu:H+1"] = []interface{}{&qrAlgorithm.InSitu{H: big(), InitializeH: true}}
		m["insitu:H-1"] = []interface{}{&qrAlgorithm.InSitu{H: small(), InitializeH: true}}
		m["insitu:U+1"] = []interface{}{&qrAlgorithm.InSitu{U: big()}}
		m["insitu:U-1"] = []interface{}{&qrAlgorithm.InSitu{U: small()}}
	case strings.HasPrefix(routine, "eigensystem"):
		m["negative-epsilon"] = []interface{}{qrAlgorithm.Epsilon{Value: -1}}
		m["insitu:Eigenvalues+1"] = []interface{}{&eigensystem.InSitu{Eigenvalues: bigv()}}
		m["insitu:Eigenvalues-1"] = []interface{}{&eigensystem.InSitu{Eigenvalues: smallv()}}
		m["insitu:Eigenvectors+1"] = []interface{}{&eigensystem.InSitu{Eigenvectors: big()}}
		m["insitu:Eigenvectors-1"] = []interface{}{&eigensystem.InSitu{Eigenvectors: small()}}
	case routine == "svd":
		m["insitu-by-value"] = []interface{}{svd.InSitu{}}
		m["negative-epsilon"] = []interface{}{svd.Epsilon{Value: -1}}
		m["insitu:A+1"] = []interface{}{&svd.InSitu{A: big()}}
		m["insitu:U+1"] = []interface{}{&svd.InSitu{U: big()}}
		m["insitu:U-1"] = []interface{}{&svd.InSitu{U: small()}}
		m["insitu:V+1"] = []interface{}{&svd.InSitu{V: big()}}
		m["insitu:V-1"] = []interface{}{&svd.InSitu{V: small()}}
	case strings.HasPrefix(routine, "matrixInverse"):
		m["insitu-by-value"] = []interface{}{matrixInverse.InSitu{}}
		m["insitu:Id+1"] = []interface{}{&matrixInverse.InSitu{Id: big()}}
		m["insitu:Id-1"] = []interface{}{&matrixInverse.InSitu{Id: small()}}
		m["insitu:A+1"] = []interface{}{&matrixInverse.InSitu{A: big()}}
		m["insitu:B-1"] = []interface{}{&matrixInverse.InSitu{B: smallv()}}
	case strings.HasPrefix(routine, "determinant"):
		m["insitu-by-value"] = []interface{}{determinant.InSitu{}}
	case routine == "backSubstitution":
		m["insitu-by-value"] = []interface{}{backSubstitution.InSitu{}}
		m["insitu:A+1"] = []interface{}{&backSubstitution.InSitu{A: big()}}
		m["insitu:X+1"] = []interface{}{&backSubstitution.InSitu{X: bigv()}}
		m["insitu:X-1"] = []interface{}{&backSubstitution.InSitu{X: smallv()}}
	}
	return m
}

func sortedKeys(m map[string][]interface{}) []string {
	var ks []string
	for k := range m {
		ks = append(ks, k)
	}
	for i := range ks {
		for j := i + 1; j < len(ks); j++ {
			if ks[j] < ks[i] {
				ks[i], ks[j] = ks[j], ks[i]
			}
		}
	}
	return ks
}

func runAlg(c *vf.Ctx, cs *ACase, rank int64) {
	env := Envelope{Kind: "algorithm", A: cs}
	n := 1
	for _, x := range cs.Dims {
		if x > n {
			n = x
		}
	}
	admissible, want := algExpected(cs.Routine, cs.Dims)
	var opts []interface{}
	if cs.Variant != "shape" {
		bo := badOptions(cs.Routine, cs.Dims[0], cs.Elem)
		o, ok := bo[strings.TrimPrefix(cs.Variant, "option:")]
		if !ok {
			c.HarnessError("unknown variant " + cs.Variant)
			return
		}
		opts = o
	}
	var res aresult
	status, pan, _ := guarded(budgetFull(n), func() { res = callAlg(cs.Routine, cs.Elem, cs.Dims, opts) })
	c.Eval(1)
	if s, ok := pan.(string); ok && strings.HasPrefix(s, "harness:") {
		c.HarnessError(s)
		return
	}
	loud := status == "panic" || res.err != nil
	what, msg := "", ""
	switch {
	case status == "TICK":
		what, msg = "does-not-terminate", fmt.Sprintf("no return within %d loop ticks", budgetFull(n))
	case cs.Variant == "shape" && admissible && loud:
		what, msg = "admissible-input-rejected", fmt.Sprintf("admissible %v input failed: panic=%v err=%v", cs.Dims, pan, res.err)
	case cs.Variant == "shape" && admissible && !shapesMatch(res.shapes, want):
		what, msg = "wrong-shape-result", fmt.Sprintf("result shapes %v, expected %v", res.shapes, want)
	case cs.Variant == "shape" && !admissible && !loud && !hasZero(cs.Dims):
		what, msg = "no-panic-no-error", fmt.Sprintf("inadmissible shape %v accepted silently, result shapes %v", cs.Dims, res.shapes)
	case cs.Variant != "shape" && !loud && !shapesMatch(res.shapes, want):
		// an invalid option may be rejected or be harmless, but it must not change the result shape
		what, msg = "wrong-shape-result", fmt.Sprintf("with %s the result shapes are %v, expected %v", cs.Variant, res.shapes, want)
	}
	c.Nontrivial(1)
	lab := "result"
	if status == "panic" {
		lab = "panic"
	} else if res.err != nil {
		lab = "error"
	}
	if what == "" {
		c.Outcome("alg|" + cs.Routine + "|" + strings.SplitN(cs.Variant, ":", 2)[0] + "|" + lab)
		return
	}
	c.Outcome("alg|" + cs.Routine + "|" + what)
	shapeClass := "regular-dims"
	if hasZero(cs.Dims) {
		shapeClass = "has-0-dim"
	}
	variant := cs.Variant
	if cs.Variant == "shape" {
		variant = "shape(" + shapeClass + ")"
	}
	c.Violate(fmt.Sprintf("LOUD|alg:%s|%s|%s", cs.Routine, variant, what), fmt.Sprintf("%s elem=%s dims=%v %s: %s", cs.Routine, cs.Elem, cs.Dims, cs.Variant, msg), rank, env)
}

func loudAlgorithms(c *vf.Ctx, idx *int64) {
	emit := func(cs ACase) {
		*idx++
		if !c.Mine(*idx) {
			return
		}
		k := cs
		var rank int64
		for _, d := range k.Dims {
			rank += int64(d)
		}
		c.Guard("alg|"+k.Routine+"|"+k.Variant, rank, Envelope{Kind: "algorithm", A: &k})
		runAlg(c, &k, rank)
	}
	for _, e := range elems2 {
		for _, r := range algRoutines {
			nd := 2
			if r == "gaussJordan" {
				nd = 5
			} else if r == "backSubstitution" {
				nd = 3
			}
			tuples(nd, func(d []int) { emit(ACase{Routine: r, Variant: "shape", Elem: e, Dims: d}) })
			for n := 1; n <= 3; n++ {
				d := []int{n, n}
				if r == "gaussJordan" {
					d = []int{n, n, n, n, n}
				} else if r == "backSubstitution" {
					d = []int{n, n, n}
				}
				for _, k := range sortedKeys(badOptions(r, n, e)) {
					emit(ACase{Routine: r, Variant: "option:" + k, Elem: e, Dims: d})
				}
			}
		}
	}
	// optimizers: invalid option values
	for _, v := range []string{"rprop:eta-length-0", "rprop:eta-length-1", "rprop:eta-length-3", "rprop:unknown-option", "bfgs:hessian-wrong-dims", "bfgs:unknown-option",
		"gradientDescent:unknown-option", "newton:unknown-hessian-modification", "newton:insitu-by-value"} {
		*idx++
		if !c.Mine(*idx) {
			continue
		}
		runOptBad(c, v)
	}
}

// runOptBad: invalid arguments of the optimizers must be reported loudly.
func runOptBad(c *vf.Ctx, v string) {
	f := func(x ad.ConstVector) (ad.MagicScalar, error) {
		y := ad.NewReal64(0)
		t := ad.NewReal64(0)
		for i := 0; i < x.Dim(); i++ {
			t.Sub(x.ConstAt(i), ad.ConstFloat64(1))
			t.Mul(t, t)
			y.Add(y, t)
		}
		return y, nil
	}
	type unknown struct{}
	x0 := ad.NewDenseFloat64Vector([]float64{0, 3})
	var err error
	status, _, _ := guarded(budgetFull(2), func() {
		switch v {
		case "rprop:eta-length-0":
			_, err = rprop.Run(f, x0, 0.1, []float64{})
		case "rprop:eta-length-1":
			_, err = rprop.Run(f, x0, 0.1, []float64{1.2})
		case "rprop:eta-length-3":
			_, err = rprop.Run(f, x0, 0.1, []float64{1.2, 0.5, 0.1})
		case "rprop:unknown-option":
			_, err = rprop.Run(f, x0, 0.1, []float64{1.2, 0.5}, unknown{})
		case "bfgs:hessian-wrong-dims":
			_, err = bfgs.Run(f, x0, bfgs.Hessian{Value: ad.NullDenseFloat64Matrix(3, 3)})
		case "bfgs:unknown-option":
			_, err = bfgs.Run(f, x0, unknown{})
		case "gradientDescent:unknown-option":
			_, err = gradientDescent.Run(f, x0, 0.1, unknown{})
		case "newton:unknown-hessian-modification":
			_, err = newton.RunMin(f, x0, newton.HessianModification{Value: "Bogus"})
		case "newton:insitu-by-value":
			_, err = newton.RunMin(f, x0, newton.InSitu{})
		}
	})
	c.Eval(1)
	c.Nontrivial(1)
	if status == "panic" || err != nil {
		c.Outcome("alg|optimizer-bad-argument|loud")
		return
	}
	what := "no-panic-no-error"
	if status == "TICK" {
		what = "does-not-terminate"
	}
	c.Outcome("alg|optimizer-bad-argument|" + what)
	c.Violate("LOUD|alg:"+v+"|"+what, "invalid argument "+v+" was accepted silently", 1, Envelope{Kind: "optimizer-bad-argument", B: v})
}
