// Package vf is the shared supervisor of the bounded-exhaustive checks:
// sharding over worker subprocesses, violation grouping by structural key,
// known-findings matching, replay artefacts and evidence files.
package vf

import (
	"bytes"
	"crypto/sha1"
	"encoding/hex"
	"encoding/json"
	"flag"
	"fmt"
	"os"
	"os/exec"
	"path/filepath"
	"runtime"
	"sort"
	"strconv"
	"strings"
	"sync"
	"syscall"
	"time"
)

// Violation is one failing case, grouped by Key (a structural signature of the
// failing configuration; two raw failures with equal keys are one finding).
type Violation struct {
	Key  string          `json:"key"`
	What string          `json:"what"`
	Case json.RawMessage `json:"case"`
	Rank int64           `json:"rank"` // smaller = simpler witness
}

// Result is what one shard (or the merged run) measured.
type Result struct {
	Evaluations int64            `json:"evaluations"`
	Nontrivial  int64            `json:"nontrivial"`
	States      int64            `json:"states"`
	Transitions int64            `json:"transitions"`
	Traces      int64            `json:"traces"`
	Counters    map[string]int64 `json:"counters"`
	Outcomes    map[string]int64 `json:"outcomes"`
	Samples     []any            `json:"samples"`
	Violations  []Violation      `json:"violations"`
	Capped      []string         `json:"capped"`
	Notes       []string         `json:"notes"`
	HarnessErr  []string         `json:"harness_errors"`
}

// Ctx is handed to a check's Run function inside a worker.
type Ctx struct {
	Tier     string
	Shard    int
	NShard   int
	Seed     int64
	mu       sync.Mutex
	res      Result
	viol     map[string]*Violation
	dl       time.Time     // wall-clock backstop (6x limit)
	limit    time.Duration // CPU-time soft limit of this worker
	expCalls int
	expired  bool
	// hang watchdog
	beat     int64
	curLabel string
	curCase  any
	curRank  int64
}

// Guard announces the case about to be executed. If the worker then makes no
// progress (no further Guard call) for HangLimit, the watchdog reports the case
// as a HANG violation and ends the shard. HangLimit is minutes for cases that
// take microseconds, so machine load cannot trigger it.
func (c *Ctx) Guard(label string, rank int64, cs any) {
	c.mu.Lock()
	c.beat++
	c.curLabel, c.curCase, c.curRank = label, cs, rank
	c.mu.Unlock()
}

var HangLimit = 180 * time.Second

func (c *Ctx) watchdog(done chan struct{}) {
	last := int64(-1)
	lastChange := time.Now()
	for {
		select {
		case <-done:
			return
		case <-time.After(2 * time.Second):
		}
		c.mu.Lock()
		b, label, cs, rank := c.beat, c.curLabel, c.curCase, c.curRank
		c.mu.Unlock()
		if b != last {
			last, lastChange = b, time.Now()
			continue
		}
		if label != "" && time.Since(lastChange) > HangLimit {
			c.Violate("HANG|"+label, fmt.Sprintf("no return within %v (cases of this kind take microseconds)", HangLimit), rank, cs)
			c.Cap("shard ended by hang watchdog")
			json.NewEncoder(os.Stdout).Encode(c.finish())
			os.Exit(0)
		}
	}
}

// Mine reports whether enumeration index i belongs to this shard.
func (c *Ctx) Mine(i int64) bool { return int(i%int64(c.NShard)) == c.Shard }

func (c *Ctx) Thorough() bool { return c.Tier == "thorough" }

func (c *Ctx) Eval(n int64)       { c.mu.Lock(); c.res.Evaluations += n; c.mu.Unlock() }
func (c *Ctx) Nontrivial(n int64) { c.mu.Lock(); c.res.Nontrivial += n; c.mu.Unlock() }
func (c *Ctx) States(n int64)     { c.mu.Lock(); c.res.States += n; c.mu.Unlock() }
func (c *Ctx) Trans(n int64)      { c.mu.Lock(); c.res.Transitions += n; c.mu.Unlock() }
func (c *Ctx) Traces(n int64)     { c.mu.Lock(); c.res.Traces += n; c.mu.Unlock() }
func (c *Ctx) Count(k string, n int64) {
	c.mu.Lock()
	c.res.Counters[k] += n
	c.mu.Unlock()
}
func (c *Ctx) Outcome(k string) {
	c.mu.Lock()
	if len(c.res.Outcomes) < 4096 || c.res.Outcomes[k] > 0 {
		c.res.Outcomes[k]++
	}
	c.mu.Unlock()
}

// Sample records an actual explored case (at most a few are kept per shard).
func (c *Ctx) Sample(v any) {
	c.mu.Lock()
	if len(c.res.Samples) < 4 {
		c.res.Samples = append(c.res.Samples, v)
	}
	c.mu.Unlock()
}
func (c *Ctx) Cap(what string) {
	c.mu.Lock()
	for _, s := range c.res.Capped {
		if s == what {
			c.mu.Unlock()
			return
		}
	}
	c.res.Capped = append(c.res.Capped, what)
	c.mu.Unlock()
}
func (c *Ctx) Note(s string) { c.mu.Lock(); c.res.Notes = append(c.res.Notes, s); c.mu.Unlock() }

// HarnessError records a failure of the machinery itself (nondeterministic
// replay, reference model self-test failure). It makes the run exit 2, never 1.
func (c *Ctx) HarnessError(s string) {
	c.mu.Lock()
	if len(c.res.HarnessErr) < 20 {
		c.res.HarnessErr = append(c.res.HarnessErr, s)
	}
	c.mu.Unlock()
}

// Violate records a failing case under key; the simplest (lowest rank) case
// per key is kept as the replay artefact.
func (c *Ctx) Violate(key, what string, rank int64, cs any) {
	c.mu.Lock()
	defer c.mu.Unlock()
	if v, ok := c.viol[key]; ok {
		if rank >= v.Rank {
			return
		}
	} else if len(c.viol) >= 400 {
		// too many distinct keys: keep counting under an overflow key
		key = "OVERFLOW|" + strings.SplitN(key, "|", 2)[0]
		if _, ok := c.viol[key]; ok {
			return
		}
	}
	b, err := json.Marshal(cs)
	if err != nil {
		b, _ = json.Marshal(fmt.Sprintf("%+v", cs))
	}
	c.viol[key] = &Violation{Key: key, What: what, Case: b, Rank: rank}
}

// Deadline: soft internal deadline; checks that honour it stop enumerating,
// call Cap, and the run is reported exhaustive:false (exit 0).
//
// The deadline is measured in CPU time of the worker process (user+sys), not wall-clock
// time, so that a loaded machine does not cut an enumeration short; a wall-clock backstop
// of 6x the limit guards against a worker that is starved of CPU.
func (c *Ctx) Expired() bool {
	if c.dl.IsZero() {
		return false
	}
	c.expCalls++
	if c.expCalls&63 != 1 && !c.expired {
		return false
	}
	if c.expired {
		return true
	}
	var ru syscall.Rusage
	if syscall.Getrusage(syscall.RUSAGE_SELF, &ru) == nil {
		cpu := time.Duration(ru.Utime.Nano() + ru.Stime.Nano())
		if cpu > c.limit {
			c.expired = true
		}
	}
	if time.Now().After(c.dl) {
		c.expired = true
	}
	return c.expired
}

// Spec describes one property check.
type Spec struct {
	ID        string
	Level     string // evidence level
	Rule      string
	Assume    []string
	Run       func(c *Ctx)
	Replay    func(c *Ctx, cs json.RawMessage) // re-runs one case; must call Violate if it reproduces
	Shards    int                              // 0 = NumCPU
	SoftLimit map[string]time.Duration         // per tier soft deadline
	Extra     func(r *Result) map[string]any
}

func verifDir() string {
	if d := os.Getenv("VERIF_DIR"); d != "" {
		return d
	}
	return "/verif"
}

type knownEntry struct {
	Property string `json:"property"`
	Key      string `json:"key"`
	What     string `json:"what"`
	Status   string `json:"status"`
	Commit   string `json:"commit,omitempty"`
}

func loadKnown(id string) map[string]knownEntry {
	m := map[string]knownEntry{}
	files := []string{filepath.Join(verifDir(), "known_findings.json")}
	if x := os.Getenv("VERIF_KNOWN_EXTRA"); x != "" {
		// development aid only: a second, not yet merged findings file
		files = append(files, x)
	}
	for _, fn := range files {
		b, err := os.ReadFile(fn)
		if err != nil {
			continue
		}
		var f struct {
			Findings []knownEntry `json:"findings"`
		}
		if err := json.Unmarshal(b, &f); err != nil {
			fmt.Fprintf(os.Stderr, "HARNESS-ERROR: %s does not parse: %v\n", fn, err)
			os.Exit(2)
		}
		for _, e := range f.Findings {
			if e.Property == id && e.Status == "open" {
				m[e.Key] = e
			}
		}
	}
	return m
}

func newCtx(tier string, shard, n int, seed int64) *Ctx {
	c := &Ctx{Tier: tier, Shard: shard, NShard: n, Seed: seed, viol: map[string]*Violation{}}
	c.res.Counters = map[string]int64{}
	c.res.Outcomes = map[string]int64{}
	return c
}

// NewWorkerCtx / Finish: for harnesses that run part of their exploration in a child
// process of their own (e.g. a -race build) and merge its Result.
func NewWorkerCtx(tier string, shard, n int) *Ctx { return newCtx(tier, shard, n, 0) }
func (c *Ctx) Finish() *Result                    { return c.finish() }

func (c *Ctx) finish() *Result {
	for _, v := range c.viol {
		c.res.Violations = append(c.res.Violations, *v)
	}
	sort.Slice(c.res.Violations, func(i, j int) bool { return c.res.Violations[i].Key < c.res.Violations[j].Key })
	return &c.res
}

// Main is the entry point of every harness binary.
func Main(s Spec) {
	tier := flag.String("tier", os.Getenv("VERIF_TIER"), "quick|thorough")
	shard := flag.String("shard", "", "i/n (worker mode)")
	replay := flag.String("replay", "", "replay artefact path")
	flag.Parse()
	if *tier == "" {
		*tier = "quick"
	}
	seed, _ := strconv.ParseInt(os.Getenv("VERIF_SEED"), 10, 64)

	if *replay != "" {
		os.Exit(doReplay(s, *replay, *tier, seed))
	}
	if *shard != "" {
		var i, n int
		fmt.Sscanf(*shard, "%d/%d", &i, &n)
		c := newCtx(*tier, i, n, seed)
		if d, ok := s.SoftLimit[*tier]; ok {
			c.limit = d
			c.dl = time.Now().Add(6 * d)
		}
		done := make(chan struct{})
		go c.watchdog(done)
		func() {
			defer close(done)
			defer func() {
				if r := recover(); r != nil {
					buf := make([]byte, 1<<14)
					buf = buf[:runtime.Stack(buf, false)]
					c.HarnessError(fmt.Sprintf("harness panic in shard %d: %v\n%s", i, r, buf))
				}
			}()
			s.Run(c)
		}()
		out := json.NewEncoder(os.Stdout)
		if err := out.Encode(c.finish()); err != nil {
			fmt.Fprintln(os.Stderr, "encode:", err)
			os.Exit(3)
		}
		return
	}
	os.Exit(supervise(s, *tier, seed))
}

func supervise(s Spec, tier string, seed int64) int {
	start := time.Now()
	n := s.Shards
	if n <= 0 {
		n = runtime.NumCPU()
	}
	if e := os.Getenv("VERIF_SHARDS"); e != "" {
		n, _ = strconv.Atoi(e)
	}
	self, _ := os.Executable()
	results := make([]*Result, n)
	errs := make([]string, n)
	var wg sync.WaitGroup
	for i := 0; i < n; i++ {
		wg.Add(1)
		go func(i int) {
			defer wg.Done()
			cmd := exec.Command(self, "-tier", tier, "-shard", fmt.Sprintf("%d/%d", i, n))
			cmd.Env = append(os.Environ(), "GOMAXPROCS=2")
			var out, eb bytes.Buffer
			cmd.Stdout = &out
			cmd.Stderr = &eb
			err := cmd.Run()
			var r Result
			// the JSON result is the last line of stdout
			lines := bytes.Split(bytes.TrimSpace(out.Bytes()), []byte("\n"))
			if len(lines) == 0 || json.Unmarshal(lines[len(lines)-1], &r) != nil {
				tail := eb.String()
				if len(tail) > 3000 {
					tail = tail[len(tail)-3000:]
				}
				errs[i] = fmt.Sprintf("shard %d produced no result (err=%v): %s", i, err, tail)
				return
			}
			results[i] = &r
		}(i)
	}
	wg.Wait()

	m := &Result{Counters: map[string]int64{}, Outcomes: map[string]int64{}}
	byKey := map[string]*Violation{}
	capset := map[string]bool{}
	for i, r := range results {
		if r == nil {
			m.HarnessErr = append(m.HarnessErr, errs[i])
			continue
		}
		m.Evaluations += r.Evaluations
		m.Nontrivial += r.Nontrivial
		m.States += r.States
		m.Transitions += r.Transitions
		m.Traces += r.Traces
		for k, v := range r.Counters {
			m.Counters[k] += v
		}
		for k, v := range r.Outcomes {
			m.Outcomes[k] += v
		}
		if len(m.Samples) < 6 {
			for _, sm := range r.Samples {
				if len(m.Samples) < 6 {
					m.Samples = append(m.Samples, sm)
				}
			}
		}
		for _, cp := range r.Capped {
			capset[cp] = true
		}
		m.Notes = append(m.Notes, r.Notes...)
		m.HarnessErr = append(m.HarnessErr, r.HarnessErr...)
		for j := range r.Violations {
			v := r.Violations[j]
			if o, ok := byKey[v.Key]; !ok || v.Rank < o.Rank {
				byKey[v.Key] = &v
			}
		}
	}
	for k := range capset {
		m.Capped = append(m.Capped, k)
	}
	sort.Strings(m.Capped)
	keys := make([]string, 0, len(byKey))
	for k := range byKey {
		keys = append(keys, k)
	}
	sort.Strings(keys)

	known := loadKnown(s.ID)
	exit := 0
	nviol := 0
	var knownSeen []string
	rdir := filepath.Join(verifDir(), "replays", s.ID)
	for _, k := range keys {
		v := byKey[k]
		if e, ok := known[k]; ok {
			fmt.Printf("KNOWN-FINDING: property=%s key=%s %s\n", s.ID, k, e.What)
			knownSeen = append(knownSeen, k)
			continue
		}
		nviol++
		os.MkdirAll(rdir, 0o755)
		h := sha1.Sum([]byte(k))
		p := filepath.Join(rdir, hex.EncodeToString(h[:6])+".json")
		art := map[string]any{"property": s.ID, "key": k, "what": v.What, "case": v.Case, "tier": tier}
		b, _ := json.MarshalIndent(art, "", " ")
		os.WriteFile(p, b, 0o644)
		fmt.Printf("VIOLATION property=%s replay=%s key=%s :: %s\n", s.ID, p, k, v.What)
		exit = 1
	}
	for _, e := range m.HarnessErr {
		fmt.Fprintf(os.Stderr, "HARNESS-ERROR %s: %s\n", s.ID, e)
	}
	if len(m.HarnessErr) > 0 && exit == 0 {
		exit = 2
	}

	// evidence
	exhaustive := len(m.Capped) == 0 && len(m.HarnessErr) == 0
	cov := map[string]any{
		"evaluations":         m.Evaluations,
		"distinct_nontrivial": m.Nontrivial,
		"rule":                s.Rule,
		"samples":             m.Samples,
		"exhaustive":          exhaustive,
		"caps_hit":            m.Capped,
		"counters":            m.Counters,
		"distinct_outcomes":   len(m.Outcomes),
		"known_findings_seen": knownSeen,
		"shards":              n,
	}
	if len(m.Outcomes) <= 64 {
		cov["outcomes"] = m.Outcomes
	}
	if m.States > 0 {
		cov["states"] = m.States
		cov["transitions"] = m.Transitions
		cov["traces_validated_against_impl"] = m.Traces
	}
	if len(m.Notes) > 0 {
		sort.Strings(m.Notes)
		if len(m.Notes) > 40 {
			m.Notes = m.Notes[:40]
		}
		cov["notes"] = m.Notes
	}
	if s.Extra != nil {
		for k, v := range s.Extra(m) {
			cov[k] = v
		}
	}
	ev := map[string]any{
		"property_id": s.ID,
		"tier":        tier,
		"seed":        seed,
		"level":       s.Level,
		"coverage":    cov,
		"assumptions": s.Assume,
		"wall_s":      time.Since(start).Seconds(),
		"violations":  nviol,
	}
	if len(m.Samples) == 0 {
		cov["samples"] = []any{"(no sample recorded)"}
	}
	b, _ := json.MarshalIndent(ev, "", " ")
	evdir := filepath.Join(verifDir(), "evidence")
	if x := os.Getenv("VERIF_EVIDENCE_DIR"); x != "" {
		// runs against scratch worktrees (seeded changes) must not overwrite the evidence of /repo
		evdir = x
	}
	os.MkdirAll(evdir, 0o755)
	if err := os.WriteFile(filepath.Join(evdir, s.ID+".json"), b, 0o644); err != nil {
		fmt.Fprintln(os.Stderr, "cannot write evidence:", err)
		if exit == 0 {
			exit = 2
		}
	}
	fmt.Printf("%s tier=%s evaluations=%d nontrivial=%d states=%d transitions=%d outcomes=%d known=%d violations=%d exhaustive=%v wall=%.1fs\n",
		s.ID, tier, m.Evaluations, m.Nontrivial, m.States, m.Transitions, len(m.Outcomes), len(knownSeen), nviol, exhaustive, time.Since(start).Seconds())
	return exit
}

func doReplay(s Spec, path, tier string, seed int64) int {
	b, err := os.ReadFile(path)
	if err != nil {
		fmt.Fprintln(os.Stderr, err)
		return 2
	}
	var art struct {
		Property string          `json:"property"`
		Key      string          `json:"key"`
		What     string          `json:"what"`
		Case     json.RawMessage `json:"case"`
		Tier     string          `json:"tier"`
	}
	if err := json.Unmarshal(b, &art); err != nil {
		fmt.Fprintln(os.Stderr, err)
		return 2
	}
	if s.Replay == nil {
		fmt.Fprintln(os.Stderr, "no replay function")
		return 2
	}
	if art.Tier != "" {
		tier = art.Tier
	}
	c := newCtx(tier, 0, 1, seed)
	s.Replay(c, art.Case)
	r := c.finish()
	if len(r.Violations) == 0 {
		fmt.Printf("replay of %s: case does NOT violate %s on this tree\n", path, s.ID)
		return 0
	}
	for _, v := range r.Violations {
		fmt.Printf("VIOLATION property=%s replay=%s key=%s :: %s\n", s.ID, path, v.Key, v.What)
	}
	return 1
}
