#!/usr/bin/env python3
"""Emit a `go build -overlay` JSON for property <id>.
 * every file under mc/overlay/<pkgdir>/ is ADDED to the package at <repo>/<pkgdir>
   (never replaces a repo file; all carry `//go:build verif`)
 * C17*: github.com/pbenner/threadpool/threadpool.go is replaced by the controlled pool
 * ids listed in TICK: algorithm/** sources are copied with verifrt.Tick() at every loop
   head (generated from the current tree by cmd/instrument)
"""
import json, os, subprocess, sys, glob
pid, repo, scratch = sys.argv[1], sys.argv[2], sys.argv[3]
here = os.path.dirname(os.path.abspath(__file__))
rep = {}
ovl = os.path.join(here, "overlay")
for root, _, files in os.walk(ovl):
    rel = os.path.relpath(root, ovl)
    if rel.startswith("_"):
        continue
    for f in files:
        if not f.endswith(".go"):
            continue
        pk = "" if rel == "autodiff" else rel[len("autodiff/"):] if rel.startswith("autodiff/") else None
        if pk is None:
            continue
        if "zz_verifrt" in pk:
            if pid not in ("C04", "C05", "C06", "C07", "C20"):
                continue
            dst = os.path.join(repo, pk, f)
        else:
            dst = os.path.join(repo, pk, "zz_verif_" + f)
        if os.path.exists(dst):
            sys.exit("refusing to shadow existing file " + dst)
        rep[dst] = os.path.join(root, f)
if pid in ("C17",) and not os.environ.get("VERIF_REALPOOL"):
    mc = subprocess.check_output(["go", "env", "GOMODCACHE"], text=True).strip()
    tp = glob.glob(os.path.join(mc, "github.com/pbenner/threadpool@*/threadpool.go"))
    if len(tp) != 1:
        sys.exit("threadpool module not found in module cache")
    rep[tp[0]] = os.path.join(ovl, "_threadpool", "threadpool.go")
    for extra in ("verif_race.go", "verif_norace.go"):
        rep[os.path.join(os.path.dirname(tp[0]), extra)] = os.path.join(ovl, "_threadpool", extra)
TICK = ("C04", "C05", "C06", "C07", "C20")
if pid in TICK and not os.environ.get("VERIF_NOTICK"):
    out = os.path.join(scratch, "instr")
    os.makedirs(out, exist_ok=True)
    mf = os.environ.get("VERIF_MODFILE")
    r = subprocess.run(["go", "run"] + (["-modfile=" + mf] if mf else []) + ["./cmd/instrument", repo, out], cwd=here, capture_output=True, text=True)
    if r.returncode != 0:
        sys.stderr.write(r.stdout + r.stderr)
        sys.exit(1)
    for line in r.stdout.splitlines():
        src, dst = line.split("\t")
        rep[src] = dst
json.dump({"Replace": rep}, sys.stdout, indent=1)
