#!/usr/bin/env python3
"""Reference tables for C13 (special functions), generated ONCE with mpmath 1.3.0.

usage:  /opt/veriftools/pyvenv/bin/python /verif/ref/c13/gen.py [-j N] [--reuse] [family ...]

--reuse: rows whose (function, arguments) are already present in the existing table of the
family are copied from it instead of being recomputed (the generator is deterministic, so
the result is byte-identical to a full regeneration as long as the functions below are
unchanged); only new lattice points are evaluated.

The list of arguments is produced by the harness itself (`go run ./cmd/c13 -points` in
/verif/mc: every point of the quick and thorough lattices L1-L3 of
mc/cmd/c13/lattice.go), so tables and enumeration cannot drift apart.  For every point
the function value is computed with 50 significant digits (working precision 60+, raised
automatically where a consistency check fails) and written with 20 significant digits
(relative 5e-21 = 4e-5 u; the check's tolerances are >= 64 u) together with the
sensitivity  sum_i |arg_i * df/darg_i / f|  (4 digits; "A<number>" = absolute
sum_i |arg_i * df/darg_i| where f == 0).

Robustness measures (all leave the values of rows that mpmath computes directly untouched):
  polygamma, x < 0:  psi_safe() - recurrence to a positive argument at a working precision that
                     exceeds the observed cancellation by 35 digits (mpmath's reflection returns
                     reproducible garbage next to negative half-integers for even orders);
  igam, a > 8192:    series below a / continued fraction above a, complement to Gamma(a),
                     both compared where cheap (mpmath gives up with NoConvergence there);
  bessel:            more terms on NoConvergence; I_{-n} = I_n and a Wronskian bound of the
                     order-sensitivity next to large negative integer orders.

Value tokens:  decimal | +ovf/-ovf (|v| >= 2^1024) | +udf/-udf (0 < |v| < 2^-1080)
               | pole (singular) | undef (not real-valued / outside the domain) | ninf (exactly -inf)
Columns per family (after fn, arg1, arg2 as hex floats):
  uni/poly/int/powm1: value sens          mgamma: Gamma_k sens logGamma_k sens
  bessel: I sens logI sens                logadd: log(e^a+e^b) sens log(e^a-e^b) sens
  shape:  igshape: Gamma(a) psi(a)        beshape: 1/Gamma(v+1) psi(v+1)|pole   (50 / 30 digits)
  igam:   lower(a,x) upper(a,x) x^a*e^-x  (unclipped decimals: P and Q are ratios of
          huge/tiny numbers) and |a dlog f/da| for f = P, Q, lower, upper, dP/dx

Output: /verif/ref/c13/<family>.tsv.gz (deterministic gzip, mtime 0) and
/verif/mc/cmd/c13/sums.go (sha256 of every table; the harness verifies them at start).
"""
import sys, os, gzip, hashlib, subprocess, struct, io, time
from multiprocessing import Pool
import mpmath
from mpmath import mp, mpf

HERE = os.path.dirname(os.path.abspath(__file__))
MC = os.path.normpath(os.path.join(HERE, "..", "..", "mc"))
DPS = 60
mp.dps = DPS
OVF = mpf(2) ** 1024
UDF = mpf(2) ** -1080
H = mpf(10) ** -18  # relative step of central differences


def val(v):
    """value token"""
    if isinstance(v, str):
        return v
    if v == 0:
        return "0"
    a = abs(v)
    if a >= OVF:
        return "+ovf" if v > 0 else "-ovf"
    if a < UDF:
        return "+udf" if v > 0 else "-udf"
    return mpmath.nstr(v, 20, min_fixed=0, max_fixed=0, strip_zeros=True)


def raw(v):
    """unclipped decimal (the incomplete gamma table: P and Q are ratios of huge/tiny numbers)"""
    if v == 0:
        return "0"
    return mpmath.nstr(v, 20, min_fixed=0, max_fixed=0, strip_zeros=True)


def sens(f, dsum):
    """relative sensitivity |dsum/f|, or absolute 'A..' when f == 0"""
    if isinstance(f, str):
        return "0"
    dsum = abs(dsum)
    if f == 0:
        return "A" + mpmath.nstr(dsum, 4, min_fixed=0, max_fixed=0)
    return mpmath.nstr(dsum / abs(f), 4, min_fixed=0, max_fixed=0)


def cdiff(f, x):
    """x * f'(x) by central difference with relative step H (x != 0)"""
    if x == 0:
        h = H
        return mpf(0)
    h = abs(x) * H
    return x * (f(x + h) - f(x - h)) / (2 * h)


def is_int(x):
    return x == mp.floor(x)


# ---- univariate -------------------------------------------------------------------

def log_erfc(x):
    if x > 1000:
        # asymptotic: erfc(x) = exp(-x^2)/(x sqrt(pi)) * sum (-1)^k (2k-1)!!/(2x^2)^k
        t = 1 / (2 * x * x)
        s, term, k = mpf(1), mpf(1), 0
        while True:
            k += 1
            term *= -(2 * k - 1) * t
            if abs(term) < mpf(10) ** -(DPS + 5):
                break
            s += term
            if k > 200:
                raise ArithmeticError("log_erfc asymptotic")
        return -x * x - mp.log(x * mp.sqrt(mp.pi)) + mp.log(s)
    if x < -40:
        return mp.log(2)  # erfc(-x) = 2 - erfc(x), erfc(40) < 1e-696
    if abs(x) < 0.5:
        return mp.log1p(-mp.erf(x))  # no cancellation for tiny |x|
    return mp.log(mp.erfc(x))


def d_log_erfc(x):
    # x * d/dx log erfc(x) = -2x exp(-x^2) / (sqrt(pi) erfc(x))
    if x > 1000:
        return -2 * x * x - 1  # leading terms; only 4 digits are kept
    if x < -40:
        return mpf(0)
    return -2 * x * mp.exp(-x * x) / (mp.sqrt(mp.pi) * mp.erfc(x))


def zeta_big(s):
    return mp.zeta(s)


def uni(fn, x):
    try:
        if fn == "digamma":
            if x <= 0 and is_int(x):
                return "pole", "0"
            f = mp.psi(0, x)
            return val(f), sens(f, x * mp.psi(1, x))
        if fn == "trigamma":
            if x <= 0 and is_int(x):
                return "pole", "0"
            f = mp.psi(1, x)
            return val(f), sens(f, x * mp.psi(2, x))
        if fn == "logerfc":
            f = log_erfc(x)
            return val(f), sens(f, d_log_erfc(x))
        if fn == "zeta":
            if x == 1:
                return "pole", "0"
            f = mp.zeta(x)
            if x < -1e6:
                # |zeta| is astronomically large (or an exact trivial zero); sensitivity irrelevant
                return val(f), ("A1e9999" if f == 0 else "1e30")
            d = cdiff(mp.zeta, x)
            return val(f), sens(f, d)
        if fn == "sinpi":
            f = mp.sinpi(x)
            return val(f), sens(f, mp.pi * x * mp.cospi(x))
        if fn == "cospi":
            f = mp.cospi(x)
            return val(f), sens(f, mp.pi * x * mp.sinpi(x))
    except (ValueError, ZeroDivisionError):
        return "pole", "0"
    raise KeyError(fn)


def poly(n, x):
    n = int(n)
    if x <= 0 and is_int(x):
        return "pole", "0"
    f = psi_safe(n, x)
    return val(f), sens(f, x * psi_safe(n + 1, x))


def psi_safe(n, x):
    """psi_n(x) to >= 30 correct digits. For x < 0 mpmath's reflection cancels catastrophically
    where the derivative of cot vanishes (even n at negative half-integers: the terms
    n!/(x+k)^(n+1) on both sides of 0 are of size n! 2^(n+1) and cancel to psi_n(1-x); the
    garbage is even reproducible across precisions, so comparing two precisions proves
    nothing). Instead:  even n at a negative half-integer: psi_n(x) = psi_n(1-x) exactly;
    otherwise psi_n(x) = (-1)^(n+1) n! sum_{k<K} (x+k)^-(n+1) + psi_n(x+K) with x+K in (0,1],
    at a working precision that exceeds the observed cancellation by 35 digits."""
    if x > 0:
        return mp.psi(n, x)
    if n % 2 == 0 and 2 * x == mp.floor(2 * x) and x != mp.floor(x):
        return mp.psi(n, 1 - x)
    K = int(mp.floor(-x)) + 1
    if K > 20000:
        raise ArithmeticError("psi_safe: K too large")
    dps = DPS
    try:
        while dps <= 32 * 1024:
            mp.dps = dps
            terms = [mp.power(x + k, -(n + 1)) for k in range(K)]
            fac = mp.factorial(n)
            tail = mp.psi(n, x + K)
            f = (1 if n % 2 else -1) * fac * mp.fsum(terms) + tail
            M = fac * max(abs(t) for t in terms) + abs(tail)
            if abs(f) >= M * mpf(10) ** -(dps - 35):
                return f
            dps *= 2
    finally:
        mp.dps = DPS
    raise ArithmeticError("psi_safe: cancellation beyond 32k digits n=%s x=%s" % (n, x))


def mgamma(k, x):
    k = int(k)
    args = [x + mpf(1 - i) / 2 for i in range(1, k + 1)]
    lg = mpf(k * (k - 1)) / 4 * mp.log(mp.pi) + sum(mp.loggamma(a) for a in args)
    g = mp.exp(lg)
    ds = x * sum(mp.psi(0, a) for a in args)
    return val(g), sens(g, ds * g), val(lg), sens(lg, ds)


def shape(fn, a):
    """per-shape constants of the computed reference of the range lattice L6 (ref6.go):
    igshape: Gamma(a), psi(a);  beshape: 1/Gamma(v+1) (0 at the poles), psi(v+1)"""
    mp.dps = DPS + 10
    try:
        if fn == "igshape":
            return [mpmath.nstr(mp.gamma(a), 50, min_fixed=0, max_fixed=0, strip_zeros=True),
                    mpmath.nstr(mp.psi(0, a), 30, min_fixed=0, max_fixed=0, strip_zeros=True)]
        t = a + 1
        if t <= 0 and is_int(t):
            return ["0", "pole"]
        return [mpmath.nstr(mp.rgamma(t), 50, min_fixed=0, max_fixed=0, strip_zeros=True),
                mpmath.nstr(mp.psi(0, t), 30, min_fixed=0, max_fixed=0, strip_zeros=True)]
    finally:
        mp.dps = DPS


def integer(fn, n):
    n = int(n)
    if fn == "factorial":
        return val(mp.factorial(n)), "0"
    b = mp.bernoulli(n)
    return val(b), "0"


# ---- incomplete gamma -------------------------------------------------------------

BIG_A = 8192  # above this mpmath's hypergeometric machinery is slow or gives up (NoConvergence)


def lower_series(a, x, tol):
    """lower(a,x) = x^a e^-x / a * sum_{k>=0} x^k / ((a+1)...(a+k))   (all terms positive)"""
    s = term = mpf(1)
    k = 0
    while True:
        k += 1
        term = term * x / (a + k)
        s += term
        if term < tol * s and x < a + k:
            break
        if k > 5000000:
            raise ArithmeticError("lower_series")
    return mp.exp(a * mp.log(x) - x) / a * s


def upper_cf(a, x, tol):
    """upper(a,x) = x^a e^-x / (x+1-a- 1(1-a)/(x+3-a- 2(2-a)/(x+5-a- ...))), modified Lentz; x >= a"""
    tiny = mpf(10) ** -(3 * mp.dps)
    b = x + 1 - a
    f = b if b != 0 else tiny
    C, D, k = f, mpf(0), 0
    while True:
        k += 1
        an = -k * (k - a)
        b += 2
        D = b + an * D
        if D == 0:
            D = tiny
        C = b + an / C
        if C == 0:
            C = tiny
        D = 1 / D
        delta = C * D
        f *= delta
        if abs(delta - 1) < tol:
            break
        if k > 5000000:
            raise ArithmeticError("upper_cf")
    return mp.exp(a * mp.log(x) - x) / f


def igam_core(a, x):
    if a <= BIG_A:
        L = mp.gammainc(a, 0, x)
        U = mp.gammainc(a, x, mp.inf)
        return L, U
    # large a: the smaller of the two functions directly (series below a, continued fraction
    # above), the other one as the complement to Gamma(a) (no cancellation: it is >= ~Gamma/2);
    # where both are cheap (a <= x <= 1.25 a) they are computed independently and compared
    tol = mpf(10) ** -(mp.dps + 5)
    G = mp.gamma(a)
    if x < a:
        L = lower_series(a, x, tol)
        return L, G - L
    U = upper_cf(a, x, tol)
    if x <= a * 1.25:
        L = lower_series(a, x, tol)
        if abs((L + U) / G - 1) > mpf(10) ** -(mp.dps - 10):
            raise ArithmeticError("igam series/cf disagree a=%s x=%s" % (a, x))
    return G - U, U


def igam(a, x):
    if x == 0:
        g = mp.gamma(a)
        return [raw(mpf(0)), raw(g), raw(mpf(0)), "0", "0", "0",
                mpmath.nstr(abs(a * mp.psi(0, a)), 4, min_fixed=0, max_fixed=0), "0"]
    for dps in (DPS, 2 * DPS, 4 * DPS):
        mp.dps = dps
        try:
            L, U = igam_core(a, x)
            G = mp.gamma(a)
            ok = abs((L + U) / G - 1) < mpf(10) ** -(DPS - 8)
            if ok:
                h = a * H
                Lp, Up = igam_core(a + h, x)
                Lm, Um = igam_core(a - h, x)
                break
        finally:
            mp.dps = DPS
    else:
        raise ArithmeticError("igam consistency a=%s x=%s" % (a, x))
    pref = mp.exp(a * mp.log(x) - x)
    apsi = a * mp.psi(0, a)

    def dl(p, m, f):  # a * d ln f / da
        if f == 0:
            return mpf(0)
        return a * (p - m) / (2 * h) / f

    caL, caU = dl(Lp, Lm, L), dl(Up, Um, U)
    caP, caQ = caL - apsi, caU - apsi
    # caP/caQ suffer cancellation when P~1 / Q~1; they are exact enough at 60 digits
    caD = a * mp.log(x) - apsi
    n4 = lambda v: mpmath.nstr(abs(v), 4, min_fixed=0, max_fixed=0)
    return [raw(L), raw(U), raw(pref), n4(caP), n4(caQ), n4(caL), n4(caU), n4(caD)]


# ---- Bessel I ---------------------------------------------------------------------

def bessel_i(v, x):
    if x < 0:
        # integer order only: I_v(-x) = (-1)^v I_v(x)
        try:
            r = mp.besseli(v, -x)
        except (ValueError, mpmath.libmp.NoConvergence):
            if not (v < 0):
                raise
            r = mp.besseli(-v, -x)  # I_{-n} = I_n (large negative integer orders defeat hypercomb)
        return -r if int(v) % 2 else r
    if v < 0 and is_int(v):
        v = -v  # I_{-n} = I_n (mpmath's hypercomb does not converge at the poles of 1/Gamma)
    try:
        r = mp.besseli(v, x)
    except mpmath.libmp.NoConvergence:
        r = mp.besseli(v, x, maxterms=10 ** 7)  # large order and argument: more terms, same sum
    if isinstance(r, mpmath.mpc) or hasattr(r, "imag") and r.imag != 0:
        raise ArithmeticError("complex besseli")
    return mp.re(r)


def bessel(v, x):
    if x == 0:
        if v == 0:
            return ["1", "0", "0", "A0"]
        if v > 0 or is_int(v):
            return ["0", "A0", "ninf", "0"]
        return ["pole", "0", "pole", "0"]
    I = bessel_i(v, x)
    I1 = bessel_i(v + 1, x)
    dx = v * I + x * I1  # x dI/dx
    if x < 0 or v == 0:
        # order fixed by the domain (integer) / v*d/dv = 0
        dv = mpf(0)
    else:
        h = abs(v) * H
        try:
            dv = v * (bessel_i(v + h, x) - bessel_i(v - h, x)) / (2 * h)
        except mpmath.libmp.NoConvergence:
            if not (v < 0 and is_int(v)):
                raise
            # next to a large negative integer order the hypergeometric sums of mpmath give up;
            # I_{-t} = I_t + (2/pi) sin(pi t) K_t  =>  d/dv I_v at v = -n is -(dI_t/dt(n) + 2 (-1)^n K_n),
            # and K_n < 1/(x I_{n+1}) by the Wronskian (an upper bound is all a sensitivity needs)
            n = -v
            dn = (bessel_i(n + h, x) - bessel_i(n - h, x)) / (2 * h)
            dv = n * (abs(dn) + 2 / (x * I1))
    s = abs(dx) + abs(dv)
    if I > 0:
        lg = mp.log(I)
        return [val(I), sens(I, s), val(lg), sens(lg, s / I)]
    return [val(I), sens(I, s), "undef", "0"]


# ---- LogAdd / LogSub / Powm1 ------------------------------------------------------

def logadd(a, b):
    m = max(a, b)
    d = -abs(a - b)
    add = m + mp.log1p(mp.exp(d))
    wa = 1 / (1 + mp.exp(b - a)) if a - b > -10000 else mpf(0)
    wb = 1 / (1 + mp.exp(a - b)) if b - a > -10000 else mpf(0)
    out = [val(add), sens(add, abs(a * wa) + abs(b * wb))]
    if a > b:
        e = mp.exp(b - a)
        sub = a + mp.log1p(-e)
        da, db = 1 / (1 - e), e / (1 - e)
        out += [val(sub), sens(sub, abs(a * da) + abs(b * db))]
    elif a == b:
        out += ["ninf", "0"]
    else:
        out += ["undef", "0"]
    return out


def powm1(a, z):
    f = mp.powm1(a, z)
    p = mp.power(a, z)
    return val(f), sens(f, abs(z * p) + abs(z * p * mp.log(a)))


# ---- driver -----------------------------------------------------------------------

def fromhex(s):
    return mpf(float.fromhex(s))


def work(line):
    mp.dps = DPS
    fn, ha, hx = line.split("\t")
    a, x = fromhex(ha), fromhex(hx)
    try:
        if fn in ("digamma", "trigamma", "logerfc", "zeta", "sinpi", "cospi"):
            out = uni(fn, x)
        elif fn == "polygamma":
            out = poly(a, x)
        elif fn == "mgamma":
            out = mgamma(a, x)
        elif fn in ("factorial", "bernoulli"):
            out = integer(fn, x)
        elif fn in ("igshape", "beshape"):
            out = shape(fn, a)
        elif fn == "igam":
            out = igam(a, x)
        elif fn == "bessel":
            out = bessel(a, x)
        elif fn == "logadd":
            out = logadd(a, x)
        elif fn == "powm1":
            out = powm1(a, x)
        else:
            raise KeyError(fn)
    except Exception as e:  # a failure of the generator must never become a table row
        return line, "ERROR %s: %r" % (line, e)
    return line, "\t".join([fn, ha, hx] + list(out))


FAMILY = {"digamma": "uni", "trigamma": "uni", "logerfc": "uni", "zeta": "uni", "sinpi": "uni",
          "cospi": "uni", "polygamma": "poly", "mgamma": "mgamma", "factorial": "int",
          "bernoulli": "int", "igshape": "shape", "beshape": "shape", "igam": "igam", "bessel": "bessel", "logadd": "logadd", "powm1": "powm1"}
ORDER = ["uni", "poly", "mgamma", "int", "shape", "igam", "bessel", "logadd", "powm1"]


def main():
    args = sys.argv[1:]
    nproc = 12
    if args and args[0] == "-j":
        nproc = int(args[1])
        args = args[2:]
    reuse = False
    if args and args[0] == "--reuse":
        reuse = True
        args = args[1:]
    want = args or ORDER
    env = dict(os.environ, GOFLAGS="-mod=mod", GOPROXY="off", GOSUMDB="off", GOTOOLCHAIN="local", GODEBUG="goindex=0")
    pts = subprocess.check_output(["go", "run", "./cmd/c13", "-points"], cwd=MC, env=env, text=True).splitlines()
    byfam = {}
    for l in pts:
        byfam.setdefault(FAMILY[l.split("\t")[0]], []).append(l)
    for fam in ORDER:
        if fam not in want:
            continue
        lines = byfam.get(fam, [])
        t0 = time.time()
        old = {}
        path = os.path.join(HERE, fam + ".tsv.gz")
        if reuse and os.path.exists(path):
            for row in gzip.open(path, "rt").read().splitlines():
                f = row.split("\t")
                old["\t".join(f[:3])] = row
        todo = [l for l in lines if l not in old]
        with Pool(nproc) as pool:
            new = dict(pool.map(work, todo, chunksize=16))
        res = [(l, old[l] if l in old else new[l]) for l in lines]
        bad = [r for _, r in res if r.startswith("ERROR")]
        if bad:
            sys.stderr.write("\n".join(bad[:20]) + "\n%d generator errors in %s\n" % (len(bad), fam))
            sys.exit(1)
        raw = ("\n".join(r for _, r in res) + "\n").encode()
        buf = io.BytesIO()
        with gzip.GzipFile(fileobj=buf, mode="wb", compresslevel=9, mtime=0, filename="") as g:
            g.write(raw)
        open(os.path.join(HERE, fam + ".tsv.gz"), "wb").write(buf.getvalue())
        print("%-8s %7d rows (%d computed)  %8d bytes gz  %.0f s" % (fam, len(lines), len(todo), len(buf.getvalue()), time.time() - t0), flush=True)
    # checksums of everything present
    with open(os.path.join(MC, "cmd", "c13", "sums.go"), "w") as f:
        f.write("// Code generated by /verif/ref/c13/gen.py; DO NOT EDIT.\n\npackage main\n\n")
        f.write("// sha256 of the committed reference tables /verif/ref/c13/<family>.tsv.gz\n")
        f.write("var tableSums = map[string]string{\n")
        for fam in ORDER:
            p = os.path.join(HERE, fam + ".tsv.gz")
            if os.path.exists(p):
                f.write('\t"%s": "%s",\n' % (fam, hashlib.sha256(open(p, "rb").read()).hexdigest()))
        f.write("}\n")
    subprocess.call(["gofmt", "-w", os.path.join(MC, "cmd", "c13", "sums.go")])


if __name__ == "__main__":
    main()
