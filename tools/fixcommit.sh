#!/bin/bash
# fixcommit.sh <worktree> <fix.diff> "<commit message starting with fix:>"
set -e
wt=$1; diff=$2; msg=$3
cd "$wt"
test -z "$(git status --porcelain)" || { echo "worktree not clean"; exit 1; }
python3 /verif/tools/applyfix.py "$wt" "$diff" > /tmp/applyfix.log 2>&1 || { cat /tmp/applyfix.log; git checkout -q -- .; exit 1; }
export GOFLAGS=-mod=mod GOPROXY=off GOSUMDB=off GOTOOLCHAIN=local
go build ./... 2>&1 | grep -v "^#\|adam" | head -5
# compare regenerated result with what the diff's author produced for generated files (informational)
git add -A
git -c user.name=builder -c user.email=builder@example.com commit -q -m "$msg"
echo "committed: $msg ($(git show --stat HEAD | tail -1))"
