#!/usr/bin/env python3
"""Regenerates the 'Figures at hand-over' table of DESIGN.md from run logs
(/var/tmp/final-quick-CNN.log, /var/tmp/thor{3,4,5}-CNN.log; later files win)."""
import re, glob
q, th = {}, {}
for f in sorted(glob.glob('/var/tmp/final-quick-C*.log')):
    m = re.search(r'^(C\d\d) tier=quick evaluations=(\d+).*?known=(\d+) violations=(\d+) exhaustive=(\w+) wall=([\d.]+)s', open(f).read(), re.M)
    if m: q[m.group(1)] = (int(m.group(2)), m.group(3), m.group(5), float(m.group(6)))
for pat in ['/var/tmp/thor3-C*.log', '/var/tmp/thor4-C*.log', '/var/tmp/thor5-C*.log']:
    for f in sorted(glob.glob(pat)):
        m = re.search(r'^(C\d\d) tier=thorough evaluations=(\d+).*?known=(\d+) violations=(\d+) exhaustive=(\w+) wall=([\d.]+)s', open(f, errors='replace').read(), re.M)
        if m and m.group(4) == '0': th[m.group(1)] = (int(m.group(2)), m.group(3), m.group(4), m.group(5), float(m.group(6)))
rows = ['| check | quick: evaluations | known | wall (idle machine) | thorough: evaluations | known | exhaustive | wall (loaded machine) |', '|---|---|---|---|---|---|---|---|']
fmt = lambda n: '{:,}'.format(n).replace(',', ' ')
for i in range(1, 21):
    p = 'C%02d' % i
    a, b = q.get(p), th.get(p)
    rows.append('| %s | %s | %s | %.0f s | %s | %s | %s | %s |' % (p, fmt(a[0]), a[1], a[3], fmt(b[0]) if b else '-', b[1] if b else '-', b[3] if b else '-', ('%.0f s' % b[4]) if b else '-'))
s = open('/verif/DESIGN.md').read()
i = s.index('| check | quick: evaluations |')
j = s.index('\n### Known findings at hand-over')
s = s[:i] + '\n'.join(rows) + '\n' + s[j:]
open('/verif/DESIGN.md', 'w').write(s)
print('table regenerated:', len(rows) - 2, 'rows')
