#!/usr/bin/env python3
"""applyfix.py <repo> <fix.diff>: applies the hand-written part of a fix (templates *.in and
non-generated files) and regenerates every cpp-generated file with `go generate`, so that
generated instantiations stay byte-identical to cpp output. Leaves the result uncommitted."""
import os, re, subprocess, sys
repo, diff = sys.argv[1], os.path.abspath(sys.argv[2])
gen = set()
for root, _, files in os.walk(repo):
    if '/.git' in root: continue
    for f in files:
        if f.endswith('.go'):
            p = os.path.join(root, f)
            for line in open(p, errors='ignore'):
                m = re.match(r'//go:generate cpp .* -o (\S+)', line)
                if m:
                    gen.add(os.path.relpath(os.path.join(root, m.group(1)), repo))
files = re.findall(r'^diff --git a/(\S+) b/', open(diff).read(), re.M)
hand = [f for f in files if f not in gen]
print("hand-written:", hand)
print("generated (regenerated, not patched):", len([f for f in files if f in gen]))
args = ['git', '-C', repo, 'apply', '--whitespace=nowarn']
for f in files:
    if f in gen:
        args.append('--exclude=' + f)
r = subprocess.run(args + [diff])
if r.returncode != 0:
    print("APPLY FAILED; trying --3way")
    r = subprocess.run(['git', '-C', repo, 'apply', '--3way', '--whitespace=nowarn'] + [a for a in args[5:]] + [diff])
    if r.returncode != 0:
        sys.exit(1)
env = dict(os.environ, GOFLAGS='-mod=mod', GOPROXY='off', GOSUMDB='off', GOTOOLCHAIN='local')
for d in ['.', 'algorithm/saga', 'algorithm/cholesky']:
    subprocess.run(['go', 'generate', '.'], cwd=os.path.join(repo, d), env=env, check=True)
subprocess.run(['git', '-C', repo, 'status', '--short'])
# report generated files whose regenerated content differs from what the diff intended
